// Package rt holds what every check shares: tiers, evidence files, known
// findings, violation/replay artefacts.
package rt

import (
	"crypto/sha256"
	"encoding/base64"
	"encoding/hex"
	"encoding/json"
	"fmt"
	"os"
	"os/exec"
	"path/filepath"
	"runtime"
	"sort"
	"strconv"
	"strings"
	"sync"
	"time"
)

// Root is the /verif directory (overridable for background runs from a snapshot).
func Root() string {
	if r := os.Getenv("VERIF_ROOT"); r != "" {
		return r
	}
	return "/verif"
}

type Tier string

const (
	Quick    Tier = "quick"
	Thorough Tier = "thorough"
)

func Seed() int {
	s, _ := strconv.Atoi(os.Getenv("VERIF_SEED"))
	return s
}

func Workers() int {
	if w, err := strconv.Atoi(os.Getenv("VERIF_WORKERS")); err == nil && w > 0 {
		return w
	}
	n := runtime.NumCPU()
	if n > 16 {
		n = 16
	}
	return n
}

// ---------------------------------------------------------------- known findings

type Finding struct {
	ID       string `json:"id"`
	Property string `json:"property"`
	Status   string `json:"status"` // open | fixed
	Commit   string `json:"commit,omitempty"`
	What     string `json:"what"`
	Witness  any    `json:"witness,omitempty"`
	Matcher  string `json:"matcher,omitempty"`
}

type findingsFile struct {
	Findings []Finding `json:"findings"`
	Fixed    []string  `json:"fixed,omitempty"`
}

var (
	findOnce sync.Once
	findings map[string]Finding
)

// OpenFinding reports whether finding id is listed as open in known_findings.json.
// A matcher may only attribute a failure to a finding for which this is true.
func OpenFinding(id string) bool {
	findOnce.Do(func() {
		findings = map[string]Finding{}
		b, err := os.ReadFile(filepath.Join(Root(), "known_findings.json"))
		if err != nil {
			return
		}
		var ff findingsFile
		if err := json.Unmarshal(b, &ff); err != nil {
			fmt.Fprintln(os.Stderr, "HARNESS-ERROR: known_findings.json:", err)
			os.Exit(2)
		}
		for _, f := range ff.Findings {
			findings[f.ID] = f
		}
	})
	f, ok := findings[id]
	return ok && f.Status == "open"
}

func FindingInfo(id string) Finding { OpenFinding(id); return findings[id] }

// ---------------------------------------------------------------- report

type KnownStat struct {
	Count   int    `json:"occurrences"`
	Witness string `json:"minimal_witness"`
	Symptom string `json:"symptom"`
}

type Violation struct {
	Msg    string `json:"msg"`
	Replay any    `json:"replay"`
}

// Report accumulates one check's coverage and verdicts, then writes the evidence
// file and prints the interface lines.
type Report struct {
	mu         sync.Mutex
	Property   string
	Tier       Tier
	Level      string
	start      time.Time
	Cov        map[string]any
	Assume     []string
	Known      map[string]*KnownStat
	Violations []Violation
	samples    []any
	Sub        map[string]any // per-sub-run stats
	exhaustive bool
	exhSet     bool
}

func NewReport(prop string, tier Tier) *Report {
	return &Report{Property: prop, Tier: tier, Level: "model_checking", start: time.Now(),
		Cov: map[string]any{}, Known: map[string]*KnownStat{}, Sub: map[string]any{}, exhaustive: true}
}

func (r *Report) Add(key string, n int) {
	r.mu.Lock()
	defer r.mu.Unlock()
	cur, _ := r.Cov[key].(int)
	r.Cov[key] = cur + n
}

func (r *Report) Set(key string, v any) {
	r.mu.Lock()
	defer r.mu.Unlock()
	r.Cov[key] = v
}

func (r *Report) Sample(s any) {
	r.mu.Lock()
	defer r.mu.Unlock()
	if len(r.samples) < 12 {
		r.samples = append(r.samples, s)
	}
}

func (r *Report) Assumption(s string) {
	r.mu.Lock()
	defer r.mu.Unlock()
	for _, a := range r.Assume {
		if a == s {
			return
		}
	}
	r.Assume = append(r.Assume, s)
}

// NotExhaustive records that some sub-run hit a cap or budget.
func (r *Report) NotExhaustive(why string) {
	r.mu.Lock()
	defer r.mu.Unlock()
	r.exhaustive = false
	caps, _ := r.Cov["caps_hit"].([]string)
	r.Cov["caps_hit"] = append(caps, why)
}

func (r *Report) KnownHit(id, witness, symptom string) {
	r.mu.Lock()
	defer r.mu.Unlock()
	k := r.Known[id]
	if k == nil {
		k = &KnownStat{Witness: witness, Symptom: symptom}
		r.Known[id] = k
	}
	k.Count++
	if len(witness) < len(k.Witness) {
		k.Witness, k.Symptom = witness, symptom
	}
}

func (r *Report) Violate(msg string, replay any) {
	r.mu.Lock()
	defer r.mu.Unlock()
	if len(r.Violations) < 50 {
		r.Violations = append(r.Violations, Violation{msg, replay})
	} else {
		r.Violations[0].Msg = r.Violations[0].Msg // keep first; count only
	}
	n, _ := r.Cov["violations_total"].(int)
	r.Cov["violations_total"] = n + 1
}

func (r *Report) NumViolations() int {
	r.mu.Lock()
	defer r.mu.Unlock()
	return len(r.Violations)
}

// Finish writes evidence, prints KNOWN-FINDING / VIOLATION lines and returns the exit code.
func (r *Report) Finish() int {
	r.mu.Lock()
	defer r.mu.Unlock()
	wall := time.Since(r.start).Seconds()
	cov := r.Cov
	if len(r.samples) > 0 {
		cov["samples"] = r.samples
	}
	cov["exhaustive"] = r.exhaustive
	if len(r.Sub) > 0 {
		cov["sub_runs"] = r.Sub
	}
	if len(r.Known) > 0 {
		cov["known_findings"] = r.Known
	}
	// schema: model_checking wants states, transitions, traces_validated_against_impl, samples
	for _, k := range []string{"states", "transitions", "traces_validated_against_impl", "evaluations", "distinct_nontrivial"} {
		if _, ok := cov[k]; !ok {
			cov[k] = 0
		}
	}
	ev := map[string]any{
		"property_id": r.Property,
		"tier":        string(r.Tier),
		"seed":        Seed(),
		"level":       r.Level,
		"coverage":    cov,
		"assumptions": r.Assume,
		"wall_s":      wall,
		"violations":  len(r.Violations),
	}
	if r.Assume == nil {
		ev["assumptions"] = []string{}
	}
	if Replay != nil {
		for _, v := range r.Violations {
			fmt.Printf("REPLAY reproduced: %s\n", v.Msg)
		}
		if len(r.Violations) == 0 {
			fmt.Println("REPLAY: the recorded case does not fail on this tree")
			return 0
		}
		return 1
	}
	dir := filepath.Join(Root(), "evidence")
	if d := os.Getenv("VERIF_EVIDENCE_DIR"); d != "" {
		dir = d // runs against deliberately broken trees (bin/seedtest.sh) must not overwrite the evidence of the real tree
	}
	_ = os.MkdirAll(dir, 0o755)
	b, err := json.MarshalIndent(ev, "", " ")
	if err != nil {
		fmt.Fprintln(os.Stderr, "HARNESS-ERROR: evidence marshal:", err)
		return 2
	}
	if err := os.WriteFile(filepath.Join(dir, r.Property+".json"), b, 0o644); err != nil {
		fmt.Fprintln(os.Stderr, "HARNESS-ERROR: evidence write:", err)
		return 2
	}
	ids := make([]string, 0, len(r.Known))
	for id := range r.Known {
		ids = append(ids, id)
	}
	sort.Strings(ids)
	for _, id := range ids {
		k := r.Known[id]
		f := findings[id]
		fmt.Printf("KNOWN-FINDING: property=%s %s: %s (%d occurrences; minimal witness %s; symptom %s)\n",
			f.Property, id, f.What, k.Count, k.Witness, k.Symptom)
	}
	fmt.Printf("%s %s: states=%v transitions=%v executions=%v exhaustive=%v wall=%.1fs violations=%d\n",
		r.Property, r.Tier, cov["states"], cov["transitions"], cov["traces_validated_against_impl"], r.exhaustive, wall, len(r.Violations))
	if len(r.Violations) == 0 {
		return 0
	}
	rdir := filepath.Join(Root(), "replays")
	if d := os.Getenv("VERIF_EVIDENCE_DIR"); d != "" {
		rdir = filepath.Join(d, "replays")
	}
	_ = os.MkdirAll(rdir, 0o755)
	for i, v := range r.Violations {
		if i >= 5 {
			break
		}
		art := map[string]any{"property": r.Property, "tier": string(r.Tier), "msg": v.Msg, "replay": v.Replay}
		ab, _ := json.MarshalIndent(art, "", " ")
		h := sha256.Sum256(ab)
		p := filepath.Join(rdir, fmt.Sprintf("%s-%s.json", r.Property, hex.EncodeToString(h[:6])))
		_ = os.WriteFile(p, ab, 0o644)
		fmt.Printf("VIOLATION property=%s replay=%s\n", r.Property, p)
		fmt.Printf("  %s\n", v.Msg)
	}
	return 1
}

// ---------------------------------------------------------------- replay

// ReplayReq is set by `<check> --replay <file>`: only the named sub-run executes, only the recorded history.
type ReplayReq struct {
	Property string
	Tier     Tier
	Run      string  `json:"run"`
	Ops      []uint8 `json:"-"`
	Raw      map[string]any
	Msg      string
}

var Replay *ReplayReq

// LoadReplay parses a replay artefact written by Finish.
func LoadReplay(path string) *ReplayReq {
	b, err := os.ReadFile(path)
	if err != nil {
		HarnessError("replay: %v", err)
	}
	var art struct {
		Property string         `json:"property"`
		Tier     string         `json:"tier"`
		Msg      string         `json:"msg"`
		Replay   map[string]any `json:"replay"`
	}
	if err := json.Unmarshal(b, &art); err != nil {
		HarnessError("replay: %v", err)
	}
	r := &ReplayReq{Property: art.Property, Tier: Tier(art.Tier), Raw: art.Replay, Msg: art.Msg}
	if r.Tier == "" {
		r.Tier = Quick
	}
	for _, k := range []string{"run", "universe", "scenario"} {
		if v, ok := art.Replay[k].(string); ok {
			r.Run = v
		}
	}
	switch ops := art.Replay["ops"].(type) {
	case string: // []uint8 is marshalled as base64
		raw, err := base64.StdEncoding.DecodeString(ops)
		if err != nil {
			HarnessError("replay ops: %v", err)
		}
		r.Ops = raw
	case []any:
		for _, o := range ops {
			r.Ops = append(r.Ops, uint8(o.(float64)))
		}
	}
	return r
}

// ---------------------------------------------------------------- variant binaries

// SubRun is set when this process is a variant build (size thresholds of the code under test
// scaled down through the overlay); a variant executes its own sub-runs (names prefixed with
// VariantPrefix) and, when started with --sub, dumps its report for the normal check to merge.
var SubRun bool

// SubDump is set together with SubRun when the parent asked for a dump (--sub).
var SubDump bool

const VariantPrefix = "small/"

// RunVariant starts the small-thresholds build of this binary (if it was built) for the same
// property and tier and merges what it reports.
func (r *Report) RunVariant() {
	if Replay != nil || SubRun {
		return
	}
	variant := os.Args[0] + ".small"
	if _, err := os.Stat(variant); err != nil {
		r.Set("small_thresholds_variant", "not built")
		return
	}
	cmd := exec.Command(variant, r.Property, "--sub", string(r.Tier))
	for _, e := range os.Environ() {
		// the variant supervises its own exploring process
		if !strings.HasPrefix(e, "VERIF_CHILD=") && !strings.HasPrefix(e, "VERIF_SLOTS=") {
			cmd.Env = append(cmd.Env, e)
		}
	}
	cmd.Stderr = os.Stderr
	out, err := cmd.Output()
	if err != nil {
		HarnessError("small-thresholds variant: %v", err)
	}
	r.Merge("small thresholds: ", out)
	r.Assumption("sub-runs prefixed '" + VariantPrefix + "' come from a second build in which the size thresholds util.BatchSize (256) and PruneBelowVersion's maxPruneNodes (1000) are 2 (two constants changed through the build overlay, nothing else differs), so that the bounded histories cross them")
}

// End finishes a report: a variant process asked for a dump prints it, everything else goes through Finish.
func (r *Report) End() int {
	if SubDump {
		return r.Dump()
	}
	return r.Finish()
}

type subDump struct {
	Cov        map[string]any
	Sub        map[string]any
	Known      map[string]*KnownStat
	Violations []Violation
	Samples    []any
	Exhaustive bool
	Assume     []string
}

// Dump prints the report for the parent process instead of finishing it.
func (r *Report) Dump() int {
	b, err := json.Marshal(subDump{r.Cov, r.Sub, r.Known, r.Violations, r.samples, r.exhaustive, r.Assume})
	if err != nil {
		HarnessError("sub-run dump: %v", err)
	}
	os.Stdout.Write(b)
	return 0
}

// Merge folds a variant process's dump into this report.
func (r *Report) Merge(prefix string, raw []byte) {
	var d subDump
	if err := json.Unmarshal(raw, &d); err != nil {
		HarnessError("sub-run merge: %v", err)
	}
	for _, k := range []string{"states", "transitions", "traces_validated_against_impl", "evaluations", "distinct_nontrivial"} {
		if v, ok := d.Cov[k].(float64); ok {
			r.Add(k, int(v))
		}
	}
	r.mu.Lock()
	defer r.mu.Unlock()
	for k, v := range d.Cov {
		switch k {
		case "states", "transitions", "traces_validated_against_impl", "evaluations", "distinct_nontrivial", "caps_hit":
		default:
			r.Cov[prefix+k] = v
		}
	}
	for k, v := range d.Sub {
		r.Sub[prefix+k] = v
	}
	for id, k := range d.Known {
		if cur := r.Known[id]; cur == nil {
			r.Known[id] = k
		} else {
			cur.Count += k.Count
		}
	}
	r.Violations = append(r.Violations, d.Violations...)
	for _, s := range d.Samples {
		if len(r.samples) < 12 {
			r.samples = append(r.samples, s)
		}
	}
	if !d.Exhaustive {
		r.exhaustive = false
		caps, _ := r.Cov["caps_hit"].([]string)
		r.Cov["caps_hit"] = append(caps, prefix+"variant run hit a cap")
	}
}

// HarnessError aborts with exit 2 (never a VIOLATION line).
func HarnessError(format string, a ...any) {
	fmt.Fprintf(os.Stderr, "HARNESS-ERROR: "+format+"\n", a...)
	os.Exit(2)
}
