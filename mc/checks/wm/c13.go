package wm

import (
	"fmt"
	"time"

	"verifmc/rt"
)

// c13Oracle is evaluated right after a rollback: the checkpoint must be fully
// resolvable from storage and storage must hold nothing that only the rolled-back
// commit created. (Root/weight/owners of the live trie are compared by Observe with
// the checkpoint's model.)
func c13Oracle(w *World, last Op) string {
	if f := recoverable(w.S, *w.Chk, "after "+last.String()); f != "" {
		w.FailCP, w.FailStore = w.lastCommit(), w.S
		return f
	}
	before := map[string]bool{}
	for _, k := range w.ChkKeys {
		before[k] = true
	}
	for _, k := range w.S.Keys() {
		if !before[k] {
			return fmt.Sprintf("after %s storage still holds node %x, which was written by the rolled-back commit and is not part of the checkpoint state", last, k)
		}
	}
	return ""
}

// C13: rolling back a commit restores the checkpoint exactly.
func C13(tier rt.Tier) int {
	rep := rt.NewReport("C13", tier)
	var runs []cfg
	per := 30 * time.Second
	if tier == rt.Quick {
		runs = []cfg{
			{name: "3keys-levels0+64", keys: []int{0, 2, 5}, vals: []string{"a", "b"}, levels: []int{0, 64}, gc: true, rootOp: true, depth: 7, c13: true, maxNoDup: 5},
			{name: "deep-pair", keys: []int{0, 1}, vals: []string{"a", "b", "c"}, levels: []int{0, 1, 64}, gc: true, depth: 8, c13: true, maxNoDup: 5},
			// one key, much deeper: many commits and collection passes before the checkpoint
			{name: "1key-very-deep", keys: []int{0}, vals: []string{"a", "b"}, levels: []int{0}, gc: true, depth: 12, c13: true, maxNoDup: 7},
			// collection passes whose storage write is rejected (and retried) before the rollback
			{name: "2keys-failing-gc-writes", keys: []int{0, 5}, vals: []string{"a", "b"}, levels: []int{0}, gc: true, gcFault: true, depth: 10, c13: true, maxNoDup: 6},
			// rollback with nothing committed since the checkpoint (uncommitted changes only, or none) and with
			// uncommitted changes on top of the commit; the histories go on afterwards (commits, collection passes)
			{name: "rollback-of-uncommitted-changes", keys: []int{0, 5}, vals: []string{"a"}, levels: []int{0}, gc: true, depth: 9, c13: true, anyRollback: true, maxNoDup: 6},
			// values SHARED between keys (the same content under two keys is one value record) and two values of
			// equal weight: the rolled-back batch can move a value from one key to another or exchange two
			{name: "2keys-shared-equal-weight-values", shared: true, keys: []int{0, 5}, vals: []string{"a", "c"}, levels: []int{0, 1}, gc: true, depth: 8, c13: true, maxNoDup: 6},
		}
	} else {
		per = 5 * time.Minute
		runs = []cfg{
			{name: "3keys-all-levels", keys: []int{0, 2, 5}, vals: []string{"a", "b"}, levels: []int{0, 1, 2, 64}, gc: true, rootOp: true, depth: 9, c13: true, maxNoDup: 5},
			{name: "4keys", keys: []int{0, 1, 2, 4}, vals: []string{"a", "b"}, levels: []int{0, 64}, gc: true, depth: 9, c13: true, maxNoDup: 5},
			{name: "1key-very-deep", keys: []int{0}, vals: []string{"a", "b"}, levels: []int{0, 1}, gc: true, depth: 15, c13: true, maxNoDup: 8},
			{name: "3keys-shared-equal-weight-values", shared: true, keys: []int{0, 1, 5}, vals: []string{"a", "c", "b"}, levels: []int{0, 1, 64}, gc: true, depth: 10, c13: true, maxNoDup: 6},
		}
	}
	for _, c := range runs {
		runCfg(rep, c, time.Now().Add(per), c11Classify)
	}
	if rt.Replay == nil || rt.Replay.Run == "scale" {
		added := []int{300, 301, 302, 303}
		if tier == rt.Thorough {
			added = []int{300, 301, 302, 303, 600, 1500, 1501, 1502, 1503}
		}
		scaleC13(rep, 200, added)
	}
	if rt.Replay == nil || rt.Replay.Run == "scripted-rollback" {
		scriptedRollbacks(rep)
	}
	rep.Set("dedup", haveDump)
	rep.Set("rule", "BFS over all histories {Update, delete (incl. same-value rewrites and delete-and-re-add of identical content), Commit(level)+batch.Commit, DeleteNodes anywhere, SaveRoot (checkpoint, once, on a committed state), then exactly one further commit, then Rollback() or RollbackTrie(checkpoint node)}; after the rollback: Root()/Weight()/owner of every block equal the checkpoint model, a trie reopened at the checkpoint root resolves every block with a verifying proof, and storage holds no key that was not there when the checkpoint was taken; the exploration continues after the rollback")
	rep.Assumption("'the rolled-back commit' is the single commit since the checkpoint (the trie keeps the created-list of the last commit only)")
	return rep.Finish()
}
