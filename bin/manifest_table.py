chk("C01", "seq", "explicit-state BFS over all operation histories (bounded alphabet/depth) of the real trie vs map model",
    "Every history of inserts/overwrites/deletes/empty inserts/oversize inserts/save+reopen/version bumps over all even-length paths on {a,b} up to 4 characters (incl. empty path and all prefix pairs), up to the stated depth, is executed on the real trie on memory, layered and persistent(stand-in) stores; after every operation all lookups and a full iteration are compared with a map model. Exhaustive within the bounds, not a sample.",
    "Bounds: 2-3 path symbols, <=4 path characters, depth 3-5 per sub-run; RocksDB replaced by an in-memory write-log stand-in; small-scope hypothesis for longer paths.",
    "DESIGN.md section 4 C01")
chk("C02", "seq", "explicit-state BFS over all histories at fixed version; independent canonical-trie hasher as oracle at every state",
    "At every state reached by any history (overwrites, deletes, delete-then-reinsert, interior-path values, save+reopen) within the bounds, the root equals an independent implementation of the published node-hash format applied to the canonical trie of the model content, every canonical node is stored under its hash with byte-identical encoding, and root<->content is a bijection over all visited states.",
    "Same bounds as C01; the independent hasher (mc/model/mpt.go) uses x/crypto sha3 directly and shares no code with core/util; collision resistance beyond visited states is not checked.",
    "DESIGN.md section 4 C02")
chk("C03", "seq", "explicit-state BFS over event histories of parent/child/sibling tries with deep-fingerprint isolation oracle",
    "All histories of {open child, child ops, direct parent ops, merge, discard} for 1-3 children over prefix-free and nested path alphabets, on memory and persistent(stand-in) bases: parent deep fingerprint (root, pending changes re-encoded, deletes, every writable-store node re-hashed) unchanged by child ops/discard/rejected merge; accepted merge publishes exactly the child's view; stale merges rejected.",
    "Bounds: <=3 children x <=3 ops, depth 5-7, 5-7 paths; views of stale children are not judged.",
    "DESIGN.md section 4 C03")
chk("C14", "seq", "explicit-state BFS with per-state store oracle (key == hash, encode/decode round trip) over adversarial value/version alphabets",
    "At every state of every explored history, every node in every store level (memory map, layered current/previous, persistent stand-in via Iterate) is filed under GetHashBytes() of its content; CreateNode(Encode(n)) has equal hash and encoding; a trie re-read from the store references each node by its recomputed hash. Values contain separators, NUL, 0xff, msgpack-looking bytes; versions -1, 0, 1, 2^40 with bumps.",
    "Bounds as C01 with 2-6 adversarial values; the full byte range of values is not enumerated.",
    "DESIGN.md section 4 C14")
chk("C06", "seq", "explicit-state BFS to closure over commit/lookup event universes of the real caches vs block-tree model, dedup on dumped private state",
    "For every block forest with <=3 blocks (quick) / <=4 blocks (thorough), every order of txn Set/Remove/Commit, block Commit (children before parents included) and lookups at every block through all four lookup entry points is explored to closure; every hit equals the block-tree model's answer, removed keys and chains through uncommitted blocks miss.",
    "Bounds: <=4 blocks, 1-2 keys, 1-2 txns per block; universes stay below LRU capacities (asserted), eviction behaviour is outside this exploration; values are immutable strings here (C07 covers mutable ones).",
    "DESIGN.md section 4 C06")
chk("C07", "seq", "explicit-state BFS to closure with mutable value types and must-hit oracle",
    "Same universes as C06 with harness-mutated values of five mutable kinds (MutVal, LeafNode, FullNode, ExtensionNode, ValueNode): objects are mutated after every Set and after every Get; every later lookup at any layer equals the model's snapshot; visibility before commit is judged at txn and block level; after commit descendant lookups must hit (no capacity reachable).",
    "Bounds as C06; 'unless evicted for capacity' is not exercised.",
    "DESIGN.md section 4 C07")
chk("C08", "sched", "stateless preemption-bounded DFS over all schedules of the real code under a cooperative scheduler (sync rewritten to vsync through -overlay, golang-lru vendored with the same rewrite)",
    "Seven 3-thread scenarios (commit vs lookups at self/parent/child-block-cache, sibling commits, same hash twice, removal, key not cached, child committed while parent commits); all schedules with <=2 (quick) / <=3 and unbounded where it completes (thorough) preemptions at LRU-operation granularity; every concurrent hit equals the block-tree value, committed writes are found afterwards, no deadlock. Failures are replayed twice for determinism before being reported.",
    "Scheduling points only before lock acquisitions (every LRU op is one critical section); atomics are not points; the data-race clause is covered only by the auxiliary free-running -race pass (bin/race.sh), which samples schedules.",
    "DESIGN.md section 4 C08")
chk("C04", "seq+crash", "explicit-state BFS over multi-round block histories with exhaustive crash-prefix enumeration of the save's write stream on a write-log device",
    "All round histories within the bounds (sequential child transactions merged/discarded, RecordDeadNodes + SaveChanges into PNodeDB): at every save the store is reopened from its log alone and every saved round must be complete; every prefix of the save's writes is a crash point: earlier roots complete, re-execution + re-save yields the same root and a complete state; each write is also failed (error must surface).",
    "Crash model = prefix of the unsynced write log with atomic batches (RocksDB WAL); RocksDB itself replaced by the stand-in; bounds 2-3 rounds, <=2 txns x <=2 ops, 4-5 paths.",
    "DESIGN.md section 4 C04")
chk("C05", "seq+crash", "explicit-state BFS over multi-round histories; per save: reachability oracle for dead-node records, prune at every version with exhaustive crash-prefix enumeration",
    "All round histories within the bounds incl. delete-then-recreate of identical content within and across rounds: no node recorded dead in round r is reachable from the root of any round >= r (independent walk over decoded device content); for every prune version and every prefix of the prune's write stream the roots at versions >= v stay fully readable, removed keys were recorded dead below v, re-running the prune after a crash converges.",
    "Same crash model and stand-in as C04; bounds 2-4 rounds, 3-5 paths; whether dead-node records below v are removed and PruneStats are not judged (not stated by the property).",
    "DESIGN.md section 4 C05")
chk("C09", "seq", "explicit-state BFS over update/delete/commit/GC/reload/Root histories of the real weighted trie vs sorted-list model with independent root computation, dedup on dumped private structure",
    "All histories within the bounds over six 32-byte keys sharing 63/3/2/1/0 nibbles: after every operation Weight() = sum of live weights, Root() = independent hash computation from the live set, and for EVERY block number GetBlockProof names the cumulative-weight owner and the proof verifies; commits at collapse levels 0..3 and 64, DeleteNodes, reload and Root() reads are interleaved everywhere.",
    "Bounds: 3-6 keys, 2 values per key (weights 1 and 3), depth 4-6 quick / 6-9 thorough; values embed the key index (no two keys store equal values; the shared-value regime is C11's known finding).",
    "DESIGN.md section 4 C09")
chk("C11", "seq+crash", "explicit-state BFS with recovery oracle after every commit/GC and exhaustive crash-prefix enumeration of the storage write log",
    "All histories within the bounds: after every batch commit and every DeleteNodes a trie reopened from just (root hash, weight) equals the model (weight, owner, value, verifying proof for every block); every prefix of the storage log inside the last operation leaves the last durably committed root recoverable. Failures matching the open finding C11-gc-ahead-of-commit are reported as KNOWN-FINDING and their branches cut.",
    "Crash model = prefix of the write log with atomic batches; Pebble replaced by an in-memory adapter; bounds 3-5 keys, depth 6 quick / 8-9 thorough.",
    "DESIGN.md section 4 C11")
chk("C13", "seq", "explicit-state BFS over checkpoint/commit/rollback histories with recovery and storage-cleanliness oracles",
    "All histories within the bounds: checkpoint (SaveRoot) on any committed state, any batch of further changes (new keys, changed values, same-value rewrites, delete-and-re-add, deletes), one commit at any collapse level, at most one intervening DeleteNodes, then Rollback() or RollbackTrie(): live trie equals the checkpoint model for every block, checkpoint root recoverable from storage, storage holds nothing that was not there at checkpoint time; exploration continues after the rollback (later GC passes must keep the checkpoint recoverable).",
    "Bounds: 2-4 keys, depth 7-9; one commit between checkpoint and rollback; failures matching the open findings C13-rewritten-node-deleted / C11-* are reported as KNOWN-FINDING and their branches cut.",
    "DESIGN.md section 4 C13")
