#!/bin/bash
# Runs the repository's stable baseline (guard OFF) and compares with BASELINE.json's stable_pass list.
# exit 0 iff every stable test passed.
. "$(dirname "$0")/env.sh"
unset CGO_ENABLED
out=$(mktemp)
(cd "${VERIF_ALT_REPO:-/repo}" && go test -mod=mod -json -vet=off -count=1 -timeout 25m ./... 2>/dev/null) > "$out"
python3 - "$out" <<'PY'
import json,sys
base=json.load(open('/root/.vp/BASELINE.json'))
want=set(base['stable_pass'])
res={}
for l in open(sys.argv[1]):
    try: d=json.loads(l)
    except: continue
    if d.get('Test') and d.get('Action') in('pass','fail'):
        res[d['Package']+'::'+d['Test']]=d['Action']
missing=[t for t in want if res.get(t)!='pass']
print('baseline: %d/%d stable tests pass'%(len(want)-len(missing),len(want)))
for t in missing: print('  NOT PASSING',t,res.get(t))
sys.exit(1 if missing else 0)
PY
rc=$?
rm -f "$out"
exit $rc
