// Package dev holds the in-memory devices behind the storage interfaces of the code
// under test. Every mutation is one atomic record of a write log, so a crash is a
// prefix of the log.
package dev

import (
	"errors"
	"sort"
	"sync"

	"github.com/0chain/common/core/util/storage"
	"github.com/0chain/common/core/util/wmpt"
)

type KV struct {
	K   string
	V   []byte
	Del bool
}

// Rec is one atomic write: a single Put/Delete or a committed batch.
type Rec struct {
	Ops []KV
}

// Store implements storage.StorageAdapter for the weighted trie.
type Store struct {
	mu     sync.Mutex
	data   map[string][]byte
	Log    []Rec
	FailAt int // >=0: the write that would get this log index (and later ones) fails
	Gets   int
	// FailGetAt >= 0: the read with this ordinal (counted from the moment it was armed) fails once
	FailGetAt   int
	getsArmed   int
	GetFaultHit bool
	// RecordGets, when non-nil, collects every key that was read
	RecordGets map[string]bool
}

var ErrInjected = errors.New("injected write failure")
var ErrInjectedRead = errors.New("injected read failure")

func NewStore() *Store { return &Store{data: map[string][]byte{}, FailAt: -1, FailGetAt: -1} }

// ArmGetFault makes the k-th read from now on fail (once); k < 0 disarms.
func (s *Store) ArmGetFault(k int) {
	s.mu.Lock()
	defer s.mu.Unlock()
	s.FailGetAt, s.getsArmed, s.GetFaultHit = k, 0, false
}

// FromLog builds a store holding exactly the given log (crash recovery = prefix).
func FromLog(log []Rec) *Store {
	s := NewStore()
	for _, r := range log {
		s.applyLocked(r)
	}
	s.Log = append([]Rec(nil), log...)
	return s
}

func (s *Store) applyLocked(r Rec) {
	for _, op := range r.Ops {
		if op.Del {
			delete(s.data, op.K)
		} else {
			s.data[op.K] = op.V
		}
	}
}

func (s *Store) write(r Rec) error {
	s.mu.Lock()
	defer s.mu.Unlock()
	if s.FailAt >= 0 && len(s.Log) >= s.FailAt {
		return ErrInjected
	}
	s.Log = append(s.Log, r)
	s.applyLocked(r)
	return nil
}

func (s *Store) Get(k []byte) ([]byte, error) {
	s.mu.Lock()
	defer s.mu.Unlock()
	s.Gets++
	if s.FailGetAt >= 0 {
		if s.getsArmed == s.FailGetAt {
			s.getsArmed++
			s.GetFaultHit = true
			return nil, ErrInjectedRead
		}
		s.getsArmed++
	}
	if s.RecordGets != nil {
		s.RecordGets[string(k)] = true
	}
	v, ok := s.data[string(k)]
	if !ok {
		return nil, wmpt.ErrKVNotFound
	}
	return append([]byte(nil), v...), nil
}

func (s *Store) Put(k, v []byte) error {
	return s.write(Rec{Ops: []KV{{K: string(k), V: append([]byte(nil), v...)}}})
}
func (s *Store) Delete(k []byte) error { return s.write(Rec{Ops: []KV{{K: string(k), Del: true}}}) }
func (s *Store) Close()                {}

func (s *Store) NewBatch() storage.Batcher { return &batch{s: s} }

// Snapshot returns a copy of the log.
func (s *Store) Snapshot() []Rec {
	s.mu.Lock()
	defer s.mu.Unlock()
	return append([]Rec(nil), s.Log...)
}

// Keys returns the sorted keys currently stored.
func (s *Store) Keys() []string {
	s.mu.Lock()
	defer s.mu.Unlock()
	ks := make([]string, 0, len(s.data))
	for k := range s.data {
		ks = append(ks, k)
	}
	sort.Strings(ks)
	return ks
}

func (s *Store) Has(k []byte) bool {
	s.mu.Lock()
	defer s.mu.Unlock()
	_, ok := s.data[string(k)]
	return ok
}

func (s *Store) Len() int {
	s.mu.Lock()
	defer s.mu.Unlock()
	return len(s.Log)
}

type batch struct {
	mu  sync.Mutex
	s   *Store
	ops []KV
}

func (b *batch) Put(k, v []byte) error {
	b.mu.Lock()
	defer b.mu.Unlock()
	b.ops = append(b.ops, KV{K: string(k), V: append([]byte(nil), v...)})
	return nil
}

func (b *batch) Delete(k []byte) error {
	b.mu.Lock()
	defer b.mu.Unlock()
	b.ops = append(b.ops, KV{K: string(k), Del: true})
	return nil
}

func (b *batch) Commit(bool) error {
	b.mu.Lock()
	ops := append([]KV(nil), b.ops...)
	b.mu.Unlock()
	// concurrent Puts arrive in a nondeterministic order; the record is a set
	sort.SliceStable(ops, func(i, j int) bool { return ops[i].K < ops[j].K })
	if err := b.s.write(Rec{Ops: ops}); err != nil {
		return err // like a Pebble batch, a batch whose commit failed keeps its operations and can be committed again
	}
	b.mu.Lock()
	b.ops = nil
	b.mu.Unlock()
	return nil
}
