package conc

import (
	"fmt"
	"sort"
	"strconv"
	"strings"
	"sync"

	"go.uber.org/zap/zapcore"

	"verifmc/checks/lg"
	"verifmc/explore/sched"
)

// ---- C20 (concurrent part): writers through the root core and derived cores, optional reader

type c20 struct {
	name, doc string
	pre       int     // entries written through the root core before the threads start
	derive    []int   // derive[i] = core index the i-th derived core is taken from (before the threads start)
	writers   [][]int // per thread: the core index of each write
	reader    bool
	readers   int // further readers (GetLogs twice each): every result on its own must hold each pre-written entry exactly once
}

func (c c20) scenario() sched.Scenario {
	return sched.Scenario{Name: c.name, Doc: c.doc, Make: func() ([]func(), func() (string, string)) {
		w := lg.NewWorld()
		for i := 0; i < c.pre; i++ {
			w.Write(0)
		}
		for _, from := range c.derive {
			w.Derive(from)
		}
		preN := w.Seq
		// every write gets a label thread.index; sequence numbers are assigned up front so that no
		// shared counter is needed
		type wr struct {
			core int
			msg  string
		}
		var scripts [][]wr
		next := preN
		for t, cores := range c.writers {
			var s []wr
			for i, core := range cores {
				next++
				s = append(s, wr{core, fmt.Sprintf("T%d.%d", t, i)})
			}
			scripts = append(scripts, s)
		}
		total := next
		started, finished := map[string]bool{}, map[string]bool{}
		var hmu sync.Mutex // harness bookkeeping only; never held across a library call
		var snaps [][]string
		var snapStarted, snapFinished []map[string]bool
		var bodies []func()
		for _, s := range scripts {
			s := s
			bodies = append(bodies, func() {
				for _, x := range s {
					hmu.Lock()
					started[x.msg] = true
					hmu.Unlock()
					_ = w.Cores[x.core].Write(zapcore.Entry{Level: zapcore.InfoLevel, Message: x.msg}, nil)
					hmu.Lock()
					finished[x.msg] = true
					hmu.Unlock()
				}
			})
		}
		if c.reader {
			bodies = append(bodies, func() {
				for i := 0; i < 2; i++ {
					fin := map[string]bool{}
					hmu.Lock()
					for k := range finished {
						fin[k] = true
					}
					hmu.Unlock()
					logs := lg.Logs(w.ML)
					st := map[string]bool{}
					hmu.Lock()
					for k := range started {
						st[k] = true
					}
					hmu.Unlock()
					snaps = append(snaps, logs)
					snapFinished = append(snapFinished, fin)
					snapStarted = append(snapStarted, st)
					schedPoint()
				}
			})
		}
		var readerFails []string
		for r := 0; r < c.readers; r++ {
			r := r
			bodies = append(bodies, func() {
				defer func() {
					if p := recover(); p != nil {
						hmu.Lock()
						readerFails = append(readerFails, fmt.Sprintf("reader %d: GetLogs panicked: %v", r, p))
						hmu.Unlock()
					}
				}()
				for i := 0; i < 2; i++ {
					logs := lg.Logs(w.ML)
					cnt := map[string]int{}
					for _, m := range logs {
						cnt[m]++
					}
					bad := ""
					for m, n := range cnt {
						if n > 1 {
							bad = fmt.Sprintf("entry %s %d times", m, n)
						}
					}
					if bad == "" && len(logs) < c.pre {
						bad = fmt.Sprintf("%d entries, %d had been written before any thread started", len(logs), c.pre)
					}
					if bad != "" {
						hmu.Lock()
						readerFails = append(readerFails, fmt.Sprintf("reader %d, GetLogs #%d: %s: %v", r, i, bad, lgHead(logs)))
						hmu.Unlock()
					}
					schedPoint()
				}
			})
		}
		judge := func() (string, string) {
			final := lg.Logs(w.ML)
			fail := ""
			if len(readerFails) > 0 {
				sort.Strings(readerFails)
				fail = "concurrent readers: " + readerFails[0]
			}
			// final buffer: every entry exactly once, newest first = some merge of the threads' program orders
			seen := map[string]int{}
			for _, m := range final {
				seen[m]++
			}
			for _, s := range scripts {
				for _, x := range s {
					if seen[x.msg] != 1 && fail == "" {
						fail = fmt.Sprintf("entry %s appears %d times in the final buffer %v (%d entries written in total, capacity 1024)", x.msg, seen[x.msg], lgHead(final), total)
					}
				}
			}
			for i := 1; i <= preN; i++ {
				if seen[strconv.Itoa(i)] != 1 && fail == "" {
					fail = fmt.Sprintf("pre-existing entry %d appears %d times in the final buffer %v", i, seen[strconv.Itoa(i)], lgHead(final))
				}
			}
			if len(final) != total && fail == "" {
				fail = fmt.Sprintf("final buffer holds %d entries, %d were written", len(final), total)
			}
			pos := map[string]int{}
			for i, m := range final {
				pos[m] = i
			}
			for _, s := range scripts {
				for i := 1; i < len(s); i++ {
					if pos[s[i].msg] > pos[s[i-1].msg] && fail == "" {
						fail = fmt.Sprintf("final buffer %v lists %s as older than %s, written earlier by the same thread", lgHead(final), s[i].msg, s[i-1].msg)
					}
				}
				if len(s) > 0 && preN > 0 && pos[s[0].msg] > pos[strconv.Itoa(preN)] && fail == "" {
					fail = fmt.Sprintf("final buffer %v lists %s as older than pre-existing entry %d", lgHead(final), s[0].msg, preN)
				}
			}
			// intermediate reads: nothing duplicated, nothing unknown, every write finished before the read is there
			for si, logs := range snaps {
				cnt := map[string]int{}
				for _, m := range logs {
					cnt[m]++
					if cnt[m] > 1 && fail == "" {
						fail = fmt.Sprintf("concurrent GetLogs #%d returned entry %s twice: %v", si, m, lgHead(logs))
					}
					if _, err := strconv.Atoi(m); err != nil && !snapStarted[si][m] && !started[m] && fail == "" {
						fail = fmt.Sprintf("concurrent GetLogs #%d returned unknown entry %q", si, m)
					}
				}
				for m := range snapFinished[si] {
					if cnt[m] != 1 && fail == "" {
						fail = fmt.Sprintf("concurrent GetLogs #%d misses entry %s whose write had returned before: %v", si, m, lgHead(logs))
					}
				}
			}
			var ss []string
			for _, l := range snaps {
				ss = append(ss, strings.Join(l, ","))
			}
			sort.Strings(ss)
			return strings.Join(final, ",") + " | reads: " + strings.Join(ss, " ; "), fail
		}
		return bodies, judge
	}}
}

func lgHead(s []string) []string {
	if len(s) > 10 {
		return append(append([]string{}, s[:10]...), "...")
	}
	return s
}

func C20Scenarios() []sched.Scenario {
	cs := []c20{
		{name: "root||root", doc: "two threads write through the root core", pre: 1, writers: [][]int{{0, 0}, {0, 0}}},
		{name: "root||derived", doc: "one thread writes through the root core, one through a core derived from it", pre: 1, derive: []int{0}, writers: [][]int{{0, 0}, {1, 1}}},
		{name: "derived||derived||reader", doc: "two derived cores (one derived from the other) and a reader calling GetLogs twice", pre: 2, derive: []int{0, 1}, writers: [][]int{{1, 1}, {2}}, reader: true},
		{name: "root||derived||derived", doc: "three writers, root and two sibling derived cores", pre: 0, derive: []int{0, 0}, writers: [][]int{{0}, {1, 1}, {2}}},
		{name: "reader||reader||root", doc: "two readers (two log-page requests at once) and a writer through the root core", pre: 3, writers: [][]int{{0}}, readers: 2},
		{name: "root||reader", doc: "writer through the root core, reader calling GetLogs twice", pre: 2, writers: [][]int{{0, 0}}, reader: true},
	}
	var out []sched.Scenario
	for _, c := range cs {
		out = append(out, c.scenario())
	}
	return out
}
