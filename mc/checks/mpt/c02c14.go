package mpt

import (
	"bytes"
	"context"
	"encoding/hex"
	"fmt"
	"sync"
	"time"

	"github.com/0chain/common/core/statecache"
	"github.com/0chain/common/core/util"

	"verifmc/model"
	"verifmc/rt"
)

func (w *World) contentBytes() map[string][]byte {
	m := make(map[string][]byte, len(w.Model))
	for k, v := range w.Model {
		m[k] = []byte(v)
	}
	return m
}

// canonicalOracle: root == independent canonical root; every canonical node is in
// the store under its hash and its stored encoding equals the independent encoding.
func canonicalOracle(w *World) string {
	if w.Bumped {
		return ""
	}
	canon := model.CanonicalMPT(w.contentBytes(), w.Ver)
	got := w.T.GetRoot()
	want := canon.Hash()
	if !bytes.Equal(got, want) {
		return fmt.Sprintf("root %x differs from the independent canonical root %x for content {%s} at version %d", got, want, w.ModelKey(), w.Ver)
	}
	fail := ""
	db := w.T.GetNodeDB()
	canon.Walk(func(n *model.MPTNode) {
		if fail != "" {
			return
		}
		sn, err := db.GetNode(n.Hash())
		if err != nil {
			fail = fmt.Sprintf("canonical node %c %x (prefix %q path %q) not in store: %v", n.Kind, n.Hash(), n.Prefix, n.Path, err)
			return
		}
		if enc := sn.Encode(); !bytes.Equal(enc, n.Encoding()) {
			fail = fmt.Sprintf("stored encoding of node %x is %q, independent encoder gives %q", n.Hash(), enc, n.Encoding())
		}
	})
	return fail
}

// rootTable checks injectivity: root -> content must be a function both ways over all visited states.
type rootTable struct {
	mu sync.Mutex
	m  map[string]string
}

func (t *rootTable) check(w *World) string {
	if w.Bumped {
		return ""
	}
	r := fmt.Sprintf("%d/%x", w.Ver, w.T.GetRoot())
	c := contentDigest(w.ModelKey())
	t.mu.Lock()
	defer t.mu.Unlock()
	if prev, ok := t.m[r]; ok {
		if prev != c {
			return fmt.Sprintf("two different contents share root %s: {%s} and {%s}", r, prev, c)
		}
		return ""
	}
	t.m[r] = c
	return ""
}

// C02: canonical, format-stable root.
func C02(tier rt.Tier) int {
	rep := rt.NewReport("C02", tier)
	p2 := Paths("ab", 4)
	var runs []alphabet
	per := 25 * time.Second
	if tier == rt.Quick {
		runs = []alphabet{
			{name: "mem-v1", kind: Mem, paths: p2, vals: []string{"x", "y"}, oversize: true, depth: 3, version: 1},
			{name: "mem-v1-deep", kind: Mem, paths: p2[:13], vals: []string{"x"}, depth: 5, version: 1},
			{name: "level-pnodedb-v7", kind: LevelP, paths: p2[:13], vals: []string{"x"}, flush: true, depth: 4, version: 7},
		}
	} else {
		per = 3 * time.Minute
		runs = []alphabet{
			{name: "mem-v1", kind: Mem, paths: p2, vals: []string{"x", "y"}, oversize: true, depth: 5, version: 1},
			{name: "mem-3symbols-v0", kind: Mem, paths: Paths("0af", 4), vals: []string{"x", "y"}, depth: 4, version: 0},
			{name: "level-mem-vneg", kind: LevelMem, paths: p2, vals: []string{"x", "y"}, flush: true, depth: 5, version: -3},
			{name: "level-pnodedb-v7", kind: LevelP, paths: p2, vals: []string{"x", "y"}, flush: true, depth: 5, version: 1 << 40},
		}
	}
	tab := &rootTable{m: map[string]string{}}
	for _, a := range runs {
		runAlphabet(rep, a, time.Now().Add(per), func(w *World) string {
			if f := canonicalOracle(w); f != "" {
				return f
			}
			return tab.check(w)
		})
	}
	if !rt.SubRun {
		reps := 16
		if tier == rt.Thorough {
			reps = 48
		}
		runLasso(rep, alphabet{name: "lasso-mem", kind: Mem, paths: []string{"aa", "aaab", "ab"}, vals: []string{"x", "y"}, depth: 1, version: 1}, 0, 3, reps, time.Now().Add(per), func(w *World) string {
			if f := canonicalOracle(w); f != "" {
				return f
			}
			return tab.check(w)
		})
		lens := spans(0, 1100, 4080, 4110, 65520, 65550)
		if tier == rt.Thorough {
			lens = spans(0, 8300, 16370, 16400, 32750, 32790, 65500, 65600, 1<<20-8, 1<<20+8)
		}
		sizeSweep(rep, "canonical-root", lens, []StoreKind{Mem, LevelP}, 1, canonicalOracle, tab)
		widthSweep(rep, "canonical-root", []StoreKind{Mem, LevelP}, 1, func(w *World) string {
			if f := canonicalOracle(w); f != "" {
				return f
			}
			return tab.check(w)
		})
		// the package's debug switch must not change what is computed (it only adds logging)
		util.DebugMPTNode = true
		runAlphabet(rep, alphabet{name: "mem-v7-debug-switch-on", kind: Mem, paths: p2[:9], vals: []string{"x"}, depth: 3, version: 7}, time.Now().Add(per), func(w *World) string {
			if f := canonicalOracle(w); f != "" {
				return f
			}
			return tab.check(w)
		})
		runAlphabet(rep, alphabet{name: "level-pnodedb-debug-switch-on", kind: LevelP, paths: p2[:5], vals: []string{"x"}, flush: true, depth: 3, version: 7}, time.Now().Add(per), canonicalOracle)
		util.DebugMPTNode = false
		twoLevelSweep(rep, "canonical-root", Mem, 1, canonicalOracle)
		prefixSweep(rep, "canonical-root", Mem, 1, canonicalOracle)
		byteSweep(rep, "canonical-root", []StoreKind{Mem}, 1, canonicalOracle)
	}
	rep.Set("distinct_roots", len(tab.m))
	rep.Set("rule", "BFS over all histories at a fixed version (inserts, overwrites, deletes, delete-then-reinsert, interior-path values, save+reopen); at every state GetRoot() must equal an independent canonical-trie hasher (own SHA3, own encoder, shares no code with core/util) applied to the model content, every canonical node must be stored under its hash with byte-identical encoding, and root<->content must be a bijection over all visited states")
	rep.Assumption("'different content => different root' is checked on the visited states only (collision resistance of SHA3 is not model-checked)")
	return rep.Finish()
}

// ---------------------------------------------------------------- C14

// storeOracle: every node of every store level is keyed by its own hash and round-trips.
func storeOracle(w *World) string {
	fail := ""
	visit := func(level string) util.NodeDBIteratorHandler {
		return func(ctx context.Context, key util.Key, node util.Node) error {
			if fail != "" {
				return nil
			}
			if h := node.GetHashBytes(); !bytes.Equal(h, key) {
				fail = fmt.Sprintf("%s: node stored under %x hashes to %x (%T %q)", level, []byte(key), h, node, node.Encode())
				return nil
			}
			enc := node.Encode()
			dn, err := util.CreateNode(bytes.NewReader(enc))
			if err != nil {
				fail = fmt.Sprintf("%s: stored node %x does not decode from its own encoding: %v", level, []byte(key), err)
				return nil
			}
			if !bytes.Equal(dn.GetHashBytes(), key) {
				fail = fmt.Sprintf("%s: node %x decodes to a node hashing to %x (encoding %q)", level, []byte(key), dn.GetHashBytes(), enc)
				return nil
			}
			if !bytes.Equal(dn.Encode(), enc) {
				fail = fmt.Sprintf("%s: node %x re-encodes to %q, was %q", level, []byte(key), dn.Encode(), enc)
				return nil
			}
			// the same node after a version sweep (version != origin, as pruning passes stamp it): the
			// hash covers the origin only, the encoding carries both
			for _, dv := range []util.Sequence{1, 7, -3} {
				sw := node.CloneNode()
				sw.SetVersion(node.GetOrigin() + dv)
				if !bytes.Equal(sw.GetHashBytes(), key) {
					fail = fmt.Sprintf("%s: node %x changes its hash when only its version is set to %d", level, []byte(key), sw.GetVersion())
					return nil
				}
				e2 := sw.Encode()
				d2, err := util.CreateNode(bytes.NewReader(e2))
				if err != nil || !bytes.Equal(d2.GetHashBytes(), key) || !bytes.Equal(d2.Encode(), e2) || d2.GetVersion() != sw.GetVersion() || d2.GetOrigin() != sw.GetOrigin() {
					fail = fmt.Sprintf("%s: node %x with origin %d / version %d does not round-trip: decoded origin %d version %d hash %x (err %v)", level, []byte(key), sw.GetOrigin(), sw.GetVersion(), d2.GetOrigin(), d2.GetVersion(), d2.GetHashBytes(), err)
					return nil
				}
			}
			return nil
		}
	}
	switch d := w.T.GetNodeDB().(type) {
	case *util.MemoryNodeDB:
		_ = d.Iterate(context.Background(), visit("memory store"))
	case *util.LevelNodeDB:
		_ = d.GetCurrent().Iterate(context.Background(), visit("layered store, current level"))
		_ = d.GetPrev().Iterate(context.Background(), visit("layered store, previous level"))
		if pl, ok := d.GetPrev().(*util.LevelNodeDB); ok {
			_ = pl.GetCurrent().Iterate(context.Background(), visit("layered store below, current level"))
		}
	case *util.PNodeDB:
		_ = d.Iterate(context.Background(), visit("persistent store"))
	}
	if fail != "" {
		return fail
	}
	// copying the persistent store (MergeState out of it, into a memory store and into another persistent store):
	// the copy holds every node under its own hash and as many nodes as the source
	if w.PN != nil {
		src := 0
		_ = w.PN.Iterate(context.Background(), func(ctx context.Context, key util.Key, node util.Node) error { src++; return nil })
		p2 := fmt.Sprintf("mptcopy-%d", nextDev())
		pn2, err := util.NewPNodeDB(p2, "")
		if err != nil {
			panic(err)
		}
		defer resetDev(p2)
		for name, dst := range map[string]util.NodeDB{"a memory store": util.NewMemoryNodeDB(), "another persistent store": pn2} {
			if err := util.MergeState(context.Background(), w.PN, dst); err != nil {
				return fmt.Sprintf("MergeState from the persistent store into %s: %v", name, err)
			}
			n := 0
			_ = dst.Iterate(context.Background(), func(ctx context.Context, key util.Key, node util.Node) error {
				n++
				if fail == "" && !bytes.Equal(node.GetHashBytes(), key) {
					fail = fmt.Sprintf("after MergeState from the persistent store into %s: key %x holds a node hashing to %x", name, []byte(key), node.GetHashBytes())
				}
				return nil
			})
			if fail == "" && n != src {
				fail = fmt.Sprintf("after MergeState from the persistent store (%d nodes) into %s the copy holds %d nodes", src, name, n)
			}
			if fail != "" {
				return fail
			}
		}
	}
	// a trie re-read from the store alone re-computes to its root
	root := w.T.GetRoot()
	if root == nil {
		return ""
	}
	t2 := util.NewMerklePatriciaTrie(w.T.GetNodeDB(), util.Sequence(w.Ver), root, statecache.NewEmpty())
	refs := map[string]bool{hex.EncodeToString(root): true}
	err := t2.Iterate(context.Background(), func(ctx context.Context, path util.Path, key util.Key, node util.Node) error {
		if node == nil {
			return fmt.Errorf("missing node %x", []byte(key))
		}
		if !bytes.Equal(node.GetHashBytes(), key) {
			return fmt.Errorf("node referenced as %x hashes to %x", []byte(key), node.GetHashBytes())
		}
		if !refs[hex.EncodeToString(key)] {
			return fmt.Errorf("node %x visited but never referenced", []byte(key))
		}
		switch n := node.(type) {
		case *util.FullNode:
			for _, c := range n.Children {
				if c != nil {
					refs[hex.EncodeToString(c)] = true
				}
			}
		case *util.ExtensionNode:
			refs[hex.EncodeToString(n.NodeKey)] = true
		}
		return nil
	}, util.NodeTypeLeafNode|util.NodeTypeFullNode|util.NodeTypeExtensionNode)
	if err != nil {
		return "re-read from store: " + err.Error()
	}
	return ""
}

var adversarialValues = []string{":", "::x:", "\x00", "\xff\xff", "\x81\xa1n\xc3", "3a3a3a3a3a3a3a3a3a3a3a3a3a3a3a3a3a3a3a3a3a3a3a3a3a3a3a3a3a3a3a3a"}

// C14: every stored node is addressed by its own hash and round-trips.
func C14(tier rt.Tier) int {
	rep := rt.NewReport("C14", tier)
	p2 := Paths("ab", 4)
	var runs []alphabet
	per := 20 * time.Second
	if tier == rt.Quick {
		runs = []alphabet{
			{name: "mem-adversarial-values", kind: Mem, paths: p2[:13], vals: adversarialValues[:4], depth: 3, version: 1},
			{name: "level-mem-versions", kind: LevelMem, paths: p2[:9], vals: []string{":", "\x00"}, flush: true, bump: 2, depth: 4, version: -1},
			{name: "level-pnodedb-huge-version", kind: LevelP, paths: p2[:9], vals: []string{"::x:", "\xff\xff"}, flush: true, bump: 1, depth: 4, version: 1 << 40},
			{name: "pnodedb-direct", kind: PDirect, paths: p2[:9], vals: []string{":", "\xff\xff"}, flush: true, bump: 1, depth: 4, version: 2},
			{name: "level-over-level", kind: LevelL, paths: p2[:9], vals: []string{"::x:"}, flush: true, depth: 4, version: 1},
		}
	} else {
		per = 3 * time.Minute
		runs = []alphabet{
			{name: "mem-adversarial-values", kind: Mem, paths: p2, vals: adversarialValues, depth: 4, version: 1},
			{name: "level-mem-versions", kind: LevelMem, paths: p2, vals: adversarialValues[:3], flush: true, bump: 2, depth: 5, version: -1},
			{name: "level-pnodedb-huge-version", kind: LevelP, paths: p2, vals: adversarialValues[1:4], flush: true, bump: 2, depth: 5, version: 1 << 40},
			{name: "mem-3symbols", kind: Mem, paths: Paths("0af", 4), vals: adversarialValues[:2], depth: 4, version: 0},
			{name: "pnodedb-direct", kind: PDirect, paths: p2, vals: adversarialValues[:3], flush: true, bump: 2, depth: 5, version: 2},
			{name: "level-over-level", kind: LevelL, paths: p2, vals: adversarialValues[1:3], flush: true, depth: 5, version: 1},
		}
	}
	if rt.SubRun {
		// BatchSize = 2: every flush of more than two nodes is a multi-batch store write
		runs = []alphabet{
			{name: rt.VariantPrefix + "level-pnodedb", kind: LevelP, paths: p2[:9], vals: []string{":", "\xff\xff"}, flush: true, bump: 1, depth: 4, version: 3},
			{name: rt.VariantPrefix + "level-mem", kind: LevelMem, paths: p2[:9], vals: []string{"::x:"}, flush: true, depth: 4, version: 1},
		}
		if tier == rt.Thorough {
			runs[0].paths, runs[0].depth = p2, 5
			runs[1].paths, runs[1].depth = p2, 5
		}
	}
	for _, a := range runs {
		runAlphabet(rep, a, time.Now().Add(per), storeOracle)
	}
	if !rt.SubRun {
		reps := 12
		if tier == rt.Thorough {
			reps = 40
		}
		runLasso(rep, alphabet{name: "lasso-level-pnodedb", kind: LevelP, paths: []string{"aa", "aaab"}, vals: []string{":"}, flush: true, bump: 400, depth: 1, version: 1}, 0, 3, reps, time.Now().Add(per), storeOracle)
		lens := spans(0, 300, 1000, 1050, 4090, 4100, 65530, 65540)
		if tier == rt.Thorough {
			lens = spans(0, 4200, 65500, 65600, 1<<20-4, 1<<20+4, util.MPTMaxAllowableNodeSize-1, util.MPTMaxAllowableNodeSize)
		}
		sizeSweep(rep, "stored-under-own-hash", lens, []StoreKind{Mem, LevelP}, 3, storeOracle, nil)
		widthSweep(rep, "stored-under-own-hash", []StoreKind{Mem, PDirect}, 3, storeOracle)
		twoLevelSweep(rep, "stored-under-own-hash", LevelP, 3, storeOracle)
		prefixSweep(rep, "stored-under-own-hash", LevelP, 3, storeOracle)
		byteSweep(rep, "stored-under-own-hash", []StoreKind{Mem, LevelP, PDirect}, 3, storeOracle)
	}
	rep.RunVariant()
	rep.Set("rule", "BFS over all histories with separator-laden/binary values and negative/zero/huge versions on memory, layered, doubly layered and persistent(stand-in) stores, the trie also sitting directly on the persistent store; at every state every node of every store level must be keyed by GetHashBytes(), CreateNode(Encode(n)) must have the same hash and encoding, a copy of the persistent store made with MergeState (into memory and into a second persistent store) must hold the same number of nodes, each under its own hash, and a trie re-read from the store must reference every node by its recomputed hash")
	rep.Assumption("RocksDB is replaced by an in-memory write-log stand-in; PNodeDB encoding/decoding code is real")
	return rep.End()
}
