package mpt

import (
	"fmt"
	"github.com/0chain/common/core/util"
	"time"

	"verifmc/explore/seq"
	"verifmc/rt"
)

// alphabet describes one sub-run of the map/canonical-root/node-store explorations.
type alphabet struct {
	name     string
	kind     StoreKind
	paths    []string
	vals     []string
	emptyOn  []string // paths for InsertEmpty
	oversize bool
	flush    bool
	bump     int // max number of version bumps in a history (0 = fixed version)
	depth    int
	version  int64
}

func (a alphabet) ops() []Op {
	var ops []Op
	for _, p := range a.paths {
		for _, v := range a.vals {
			ops = append(ops, Op{K: 'I', P: p, V: v})
		}
		ops = append(ops, Op{K: 'D', P: p})
	}
	for _, p := range a.emptyOn {
		ops = append(ops, Op{K: 'E', P: p})
	}
	if a.oversize {
		ops = append(ops, Op{K: 'O', P: a.paths[len(a.paths)/2]})
		ops = append(ops, Op{K: 'U', P: a.paths[len(a.paths)/2]}, Op{K: 'U', P: a.paths[1]})
	}
	if a.flush && a.kind != Mem {
		ops = append(ops, Op{K: 'F'})
	}
	if a.bump > 0 {
		ops = append(ops, Op{K: 'B'})
	}
	return ops
}

func (a alphabet) describe() string {
	return fmt.Sprintf("%s: store=%s, %d paths %q, values %q, insert-empty on %q, oversize=%v, save+reopen=%v, version bumps<=%d, depth<=%d",
		a.name, a.kind, len(a.paths), a.paths, a.vals, a.emptyOn, a.oversize, a.flush, a.bump, a.depth)
}

// extra oracle evaluated on the final world of each transition (C02/C14 plug in here).
type extraOracle func(w *World) string

func runAlphabet(rep *rt.Report, a alphabet, deadline time.Time, extra extraOracle) *seq.Stats {
	st := seq.Explore(alphabetCfg(a, deadline, extra))
	absorb(rep, a.describe(), st)
	return st
}

// absorbLasso folds the result of a lasso exploration into the report.
func absorbLasso(rep *rt.Report, rule string, st *seq.LassoStats) {
	rep.Add("states", st.Lassos)
	rep.Add("transitions", st.Runs)
	rep.Add("traces_validated_against_impl", st.Runs)
	rep.Add("evaluations", st.Runs)
	rep.Add("distinct_nontrivial", st.Lassos)
	rep.Sub[st.Name] = map[string]any{"rule": rule, "stats": st}
	if !st.Exhaustive {
		rep.NotExhaustive(st.Name + ": " + st.Cap)
	}
	for id, k := range st.Known {
		for i := 0; i < k.Count; i++ {
			rep.KnownHit(id, fmt.Sprint(k.Witness), k.Msg)
		}
	}
	for _, v := range st.Violations {
		rep.Violate(fmt.Sprintf("[%s] %v => %s", st.Name, v.Hist, v.Msg), map[string]any{"run": st.Name, "history": v.Hist, "ops": v.Raw})
	}
}

// runLasso: every stem of <= stem operations followed by every cycle of <= cycle operations repeated up to
// repeats times on one instance (long histories of few operations; nothing is merged).
func runLasso(rep *rt.Report, a alphabet, stem, cycle, repeats int, deadline time.Time, extra extraOracle) {
	st := seq.Lasso(alphabetCfg(a, deadline, extra), stem, cycle, repeats)
	absorbLasso(rep, fmt.Sprintf("%s; lassos: every stem of <= %d operations, then every cycle of 1..%d operations repeated up to %d times on one instance, judged after every repetition", a.describe(), stem, cycle, repeats), st)
}

func alphabetCfg(a alphabet, deadline time.Time, extra extraOracle) seq.Config {
	ops := a.ops()
	cfg := seq.Config{
		Name:     a.name,
		NOps:     len(ops),
		OpName:   func(i int) string { return ops[i].String() },
		MaxDepth: a.depth,
		Workers:  rt.Workers(),
		Deadline: deadline,
		Enabled: func(h []uint8, op int) bool {
			if ops[op].K == 'B' {
				n := 0
				for _, x := range h {
					if ops[x].K == 'B' {
						n++
					}
				}
				return n < a.bump
			}
			return true
		},
		Run: func(h []uint8) seq.Outcome {
			w := NewWorld(a.kind, a.version)
			defer w.Close()
			for i, x := range h {
				if f := w.Apply(ops[x]); f != "" {
					if i != len(h)-1 {
						return seq.Outcome{Verdict: seq.Violation, Msg: "non-deterministic replay: prefix failed: " + f}
					}
					return classify(f, w, ops[x])
				}
			}
			if f := w.Observe(a.paths); f != "" {
				var last Op
				if len(h) > 0 {
					last = ops[h[len(h)-1]]
				}
				return classify(f, w, last)
			}
			if extra != nil {
				if f := extra(w); f != "" {
					return seq.Outcome{Verdict: seq.Violation, Msg: f}
				}
			}
			return seq.Outcome{Key: w.ModelKey() + "#" + w.ImplKey()}
		},
	}
	return cfg
}

// classify maps a failure to an open known finding or to a violation.
func classify(f string, w *World, last Op) seq.Outcome {
	return seq.Outcome{Verdict: seq.Violation, Msg: f}
}

// absorb folds one sub-run into the report.
func absorb(rep *rt.Report, rule string, st *seq.Stats) {
	rep.Add("states", st.States)
	rep.Add("transitions", st.Transitions)
	rep.Add("traces_validated_against_impl", st.Transitions)
	rep.Add("evaluations", st.Transitions)
	rep.Add("distinct_nontrivial", st.States)
	rep.Sub[st.Name] = map[string]any{"rule": rule, "stats": st}
	for _, s := range st.Samples {
		rep.Sample(map[string]any{"run": st.Name, "history": s})
	}
	if !st.Exhaustive {
		rep.NotExhaustive(st.Name + ": " + st.Cap)
	}
	for id, k := range st.Known {
		for i := 0; i < k.Count; i++ {
			rep.KnownHit(id, fmt.Sprint(k.Witness), k.Msg)
		}
	}
	for _, v := range st.Violations {
		rep.Violate(fmt.Sprintf("[%s] %v => %s", st.Name, v.Hist, v.Msg), map[string]any{"run": st.Name, "history": v.Hist, "ops": v.Raw})
	}
}

func budget(tier rt.Tier, quick, thorough time.Duration) time.Time {
	if tier == rt.Thorough {
		return time.Now().Add(thorough)
	}
	return time.Now().Add(quick)
}

// C01: the state trie behaves as a map.
func C01(tier rt.Tier) int {
	rep := rt.NewReport("C01", tier)
	p2 := Paths("ab", 4)
	var runs []alphabet
	if tier == rt.Quick {
		runs = []alphabet{
			{name: "mem-fixed", kind: Mem, paths: p2, vals: []string{"x", "y:\x00:z"}, emptyOn: []string{"", "ab", "abba"}, oversize: true, depth: 3, version: 1},
			{name: "level-mem", kind: LevelMem, paths: Paths("ab", 4)[:13], vals: []string{"x"}, flush: true, depth: 4, version: 1},
			{name: "level-pnodedb", kind: LevelP, paths: Paths("ab", 4)[:13], vals: []string{"x"}, flush: true, depth: 4, version: 1},
			{name: "mem-versions", kind: Mem, paths: Paths("ab", 4)[:9], vals: []string{"x", "y:\x00:z"}, bump: 2, depth: 4, version: 0},
			{name: "pnodedb-direct", kind: PDirect, paths: Paths("ab", 4)[:13], vals: []string{"x"}, flush: true, depth: 4, version: 1},
			{name: "level-over-level", kind: LevelL, paths: Paths("ab", 4)[:9], vals: []string{"x"}, flush: true, depth: 4, version: 1},
		}
	} else {
		runs = []alphabet{
			{name: "mem-fixed", kind: Mem, paths: p2, vals: []string{"x", "y:\x00:z"}, emptyOn: p2, oversize: true, depth: 5, version: 1},
			{name: "mem-3symbols", kind: Mem, paths: Paths("0af", 4), vals: []string{"x", "y:\x00:z"}, oversize: true, depth: 4, version: 1},
			{name: "level-mem", kind: LevelMem, paths: p2, vals: []string{"x", "y:\x00:z"}, flush: true, depth: 5, version: 1},
			{name: "level-pnodedb", kind: LevelP, paths: p2, vals: []string{"x", "y:\x00:z"}, flush: true, depth: 5, version: 1},
			{name: "mem-versions", kind: Mem, paths: p2, vals: []string{"x", "y:\x00:z"}, bump: 3, depth: 5, version: -1},
			{name: "pnodedb-direct", kind: PDirect, paths: p2, vals: []string{"x", "y:\x00:z"}, flush: true, depth: 5, version: 1},
			{name: "level-over-level", kind: LevelL, paths: p2, vals: []string{"x"}, flush: true, depth: 5, version: 1},
		}
	}
	per := 25 * time.Second
	if tier == rt.Thorough {
		per = 2 * time.Minute
	}
	if rt.SubRun {
		// BatchSize = 2: whatever the trie or its stores collect into batches of BatchSize is flushed every
		// second element, so that histories of a few operations cross the threshold several times
		runs = []alphabet{
			{name: rt.VariantPrefix + "mem", kind: Mem, paths: p2[:9], vals: []string{"x", "y"}, depth: 4, version: 1},
			{name: rt.VariantPrefix + "level-pnodedb", kind: LevelP, paths: p2[:9], vals: []string{"x", "y"}, flush: true, depth: 4, version: 1},
			{name: rt.VariantPrefix + "pnodedb-direct", kind: PDirect, paths: p2[:9], vals: []string{"x"}, flush: true, depth: 4, version: 1},
		}
		if tier == rt.Thorough {
			for i := range runs {
				runs[i].paths, runs[i].depth = p2, 5
			}
		}
	}
	for _, a := range runs {
		runAlphabet(rep, a, time.Now().Add(per), nil)
	}
	if rt.SubRun {
		return rep.End()
	}
	{
		// long histories of one instance: every cycle of up to 3 operations (and every 1-operation stem + cycle
		// of up to 2) over nested paths, repeated many times
		lp := []string{"aa", "aaab", "ab"}
		reps := 16
		if tier == rt.Thorough {
			reps = 48
		}
		am := alphabet{name: "lasso-mem", kind: Mem, paths: lp, vals: []string{"x", "y"}, depth: 1, version: 1}
		runLasso(rep, am, 0, 3, reps, time.Now().Add(per), nil)
		am.name = "lasso-mem-stem"
		runLasso(rep, am, 1, 2, reps, time.Now().Add(per), nil)
		runLasso(rep, alphabet{name: "lasso-level-pnodedb", kind: LevelP, paths: lp[:2], vals: []string{"x"}, flush: true, depth: 1, version: 1}, 0, 3, reps, time.Now().Add(per), nil)
	}
	{
		// value sizes: every length of the small ranges, and the largest values the trie accepts
		lens := spans(0, 300, 1000, 1050, 65530, 65540, util.MPTMaxAllowableNodeSize-1, util.MPTMaxAllowableNodeSize)
		if tier == rt.Thorough {
			lens = spans(0, 4200, 65500, 65600, 1<<20-4, 1<<20+4, util.MPTMaxAllowableNodeSize-3, util.MPTMaxAllowableNodeSize)
		}
		sizeSweep(rep, "map-behaviour", lens, []StoreKind{Mem, LevelP}, 1, nil, nil)
		widthSweep(rep, "map-behaviour", []StoreKind{Mem, LevelP}, 1, nil)
		twoLevelSweep(rep, "map-behaviour", Mem, 1, nil)
		prefixSweep(rep, "map-behaviour", LevelMem, 1, nil)
		byteSweep(rep, "map-behaviour", []StoreKind{Mem, LevelP}, 1, nil)
	}
	rep.Set("rule", "BFS over all histories of the listed alphabets on a fresh real trie per history (replay); after every operation: return value/error judged against map model, every alphabet path looked up (raw and decoded), full value iteration compared; states merged on (model content, root, version, pending change set, writable-store keys); non-trivial = distinct merged state")
	rep.Assumption("RocksDB is replaced by an in-memory write-log stand-in (third_party/grocksdb); PNodeDB's own code is real")
	rep.RunVariant()
	return rep.End()
}
