#!/bin/bash
# bin/build.sh <mccheck|mcsched|mcrace> : (re)build one harness binary against /repo's working tree
set -u
here="$(cd "$(dirname "$0")" && pwd)"
. "$here/env.sh"
mkdir -p "$VERIF_ROOT/.build"
cd "$VERIF_ROOT/mc" || exit 2
case "$1" in
  mccheck)
    ov=$(go run ./cmd/mkoverlay plain "$VERIF_ROOT/.build/ov-plain") || exit 2
    if ! go build -overlay "$ov" -o "$VERIF_ROOT/.build/mccheck${VERIF_BIN_SUFFIX:-}" ./cmd/mccheck 2>"$VERIF_ROOT/.build/mccheck.err"; then
      echo "note: build with private-state dump files failed, retrying with -tags nodump (no state merging for statecache/wmpt/logging checks)" >&2
      cat "$VERIF_ROOT/.build/mccheck.err" >&2
      go build -tags nodump -o "$VERIF_ROOT/.build/mccheck${VERIF_BIN_SUFFIX:-}" ./cmd/mccheck
    fi ;;
  mccheck.small)
    # the same binary with the size thresholds BatchSize (256) and maxPruneNodes (1000) set to 2 through the overlay
    ov=$(VERIF_SMALL=1 go run ./cmd/mkoverlay plain "$VERIF_ROOT/.build/ov-small") || exit 2
    go build -overlay "$ov" -o "$VERIF_ROOT/.build/mccheck${VERIF_BIN_SUFFIX:-}.small" ./cmd/mccheck ;;
  mcsched)
    ov=$(go run ./cmd/mkoverlay sched "$VERIF_ROOT/.build/ov-sched") || exit 2
    if ! go build -modfile=go.sched.mod -overlay "$ov" -o "$VERIF_ROOT/.build/mcsched${VERIF_BIN_SUFFIX:-}" ./cmd/mcsched 2>"$VERIF_ROOT/.build/mcsched.err"; then
      echo "note: build with Touch points failed (an anchor's identifiers changed?), retrying without Touch points: data races are then left to the -race pass" >&2
      cat "$VERIF_ROOT/.build/mcsched.err" >&2
      ov=$(VERIF_NOTOUCH=1 go run ./cmd/mkoverlay sched "$VERIF_ROOT/.build/ov-sched") || exit 2
      go build -modfile=go.sched.mod -overlay "$ov" -o "$VERIF_ROOT/.build/mcsched${VERIF_BIN_SUFFIX:-}" ./cmd/mcsched
    fi ;;
  mcsched.buf4)
    # the same binary with logging.BufferSize = 4 (one constant changed through the overlay)
    ov=$(VERIF_BUF4=1 go run ./cmd/mkoverlay sched "$VERIF_ROOT/.build/ov-buf4") || exit 2
    go build -modfile=go.sched.mod -overlay "$ov" -o "$VERIF_ROOT/.build/mcsched${VERIF_BIN_SUFFIX:-}.buf4" ./cmd/mcsched ;;
  mcrace)
    ov=$(go run ./cmd/mkoverlay plain "$VERIF_ROOT/.build/ov-race") || exit 2
    CGO_ENABLED=1 go build -race -overlay "$ov" -o "$VERIF_ROOT/.build/mcrace${VERIF_BIN_SUFFIX:-}" ./cmd/mcrace ;;
  *) echo "unknown binary $1" >&2; exit 2 ;;
esac
