#!/bin/bash
# bin/seedall.sh : every kept seeded change against the checks recorded as detecting it (quick tier; the repository baseline was run when each change was kept and is not repeated here)
cd "$(dirname "$0")/.."
for d in seeded/*/; do
  id=$(basename $d)
  checks=$(python3 -c "import json;print(' '.join(json.load(open('$d/meta.json'))['detected_by']))")
  [ -z "$checks" ] && { echo "== $id -> (neutralised, skipped)"; continue; }
  echo "== $id -> $checks"
  SEEDTEST_NO_BASELINE=1 bin/seedtest.sh "$PWD/$d" $checks 2>&1 | grep -v "^baseline" | cut -c1-160
done
