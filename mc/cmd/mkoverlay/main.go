// mkoverlay regenerates the build overlay from /repo's current files:
//   - every non-test file of the target packages that imports "sync" gets the import
//     rewritten to `sync "verifmc/vsync"` (mode sched only);
//   - the private-state dump files under /verif/overlay_src are added to their packages.
//
// usage: mkoverlay <mode: plain|sched> <outdir>   (prints the overlay JSON path)
package main

import (
	"bytes"
	"encoding/json"
	"fmt"
	"go/ast"
	"go/format"
	"go/parser"
	"go/token"
	"os"
	"path/filepath"
	"strings"
)

var schedPkgs = []string{"core/statecache", "core/util", "core/logging"}

func main() {
	mode, out := os.Args[1], os.Args[2]
	repo := "/repo"
	if r := os.Getenv("VERIF_REPO"); r != "" {
		repo = r
	}
	root := os.Getenv("VERIF_ROOT")
	if root == "" {
		root = "/verif"
	}
	_ = os.MkdirAll(out, 0o755)
	repl := map[string]string{}
	if mode == "sched" {
		for _, p := range schedPkgs {
			dir := filepath.Join(repo, p)
			ents, err := os.ReadDir(dir)
			if err != nil {
				fatal(err)
			}
			for _, e := range ents {
				n := e.Name()
				if e.IsDir() || !strings.HasSuffix(n, ".go") || strings.HasSuffix(n, "_test.go") {
					continue
				}
				src := filepath.Join(dir, n)
				fset := token.NewFileSet()
				f, err := parser.ParseFile(fset, src, nil, parser.ParseComments)
				if err != nil {
					fatal(err)
				}
				changed := false
				for _, im := range f.Imports {
					if im.Path.Value == `"sync"` {
						im.Path.Value = `"verifmc/vsync"`
						if im.Name == nil {
							im.Name = ast.NewIdent("sync")
						}
						changed = true
					}
				}
				if !changed {
					continue
				}
				var buf bytes.Buffer
				if err := format.Node(&buf, fset, f); err != nil {
					fatal(err)
				}
				if os.Getenv("VERIF_BUF4") != "" && n == "inmemory_logger.go" {
					src := buf.String()
					if !strings.Contains(src, "BufferSize = 1024") {
						fatal(fmt.Errorf("BufferSize constant not found in %s", n))
					}
					buf.Reset()
					buf.WriteString(strings.Replace(src, "BufferSize = 1024", "BufferSize = 4", 1))
				}
				dst := filepath.Join(out, strings.ReplaceAll(p, "/", "_")+"_"+n)
				if err := os.WriteFile(dst, buf.Bytes(), 0o644); err != nil {
					fatal(err)
				}
				repl[src] = dst
			}
		}
	}
	// added dump files: overlay_src/<pkg path with _>/<file>.go -> /repo/<pkg>/<file>.go
	srcRoot := filepath.Join(root, "overlay_src")
	_ = filepath.Walk(srcRoot, func(p string, info os.FileInfo, err error) error {
		if err != nil || info.IsDir() || !strings.HasSuffix(p, ".go") {
			return nil
		}
		rel, _ := filepath.Rel(srcRoot, p)
		repl[filepath.Join(repo, rel)] = p
		return nil
	})
	b, _ := json.MarshalIndent(map[string]any{"Replace": repl}, "", " ")
	dst := filepath.Join(out, "overlay.json")
	if err := os.WriteFile(dst, b, 0o644); err != nil {
		fatal(err)
	}
	fmt.Println(dst)
}

func fatal(err error) {
	fmt.Fprintln(os.Stderr, "mkoverlay:", err)
	os.Exit(2)
}
