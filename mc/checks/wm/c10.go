package wm

import (
	"bytes"
	"encoding/binary"
	"fmt"
	"sync"
	"sync/atomic"

	"github.com/0chain/common/core/util/wmpt"
	"github.com/fxamacker/cbor/v2"

	"verifmc/dev"
	"verifmc/model"
	"verifmc/rt"
)

// ---- C10: block proofs verify for the honest trie and cannot be forged

type content struct {
	keys []int
	vals []string
}

// contents enumerates every live set of <= maxKeys keys with every value assignment.
func contents(maxKeys int, vals []string) []content {
	var out []content
	var rec func(start int, cur content)
	rec = func(start int, cur content) {
		if len(cur.keys) > 0 {
			out = append(out, content{append([]int{}, cur.keys...), append([]string{}, cur.vals...)})
		}
		if len(cur.keys) == maxKeys {
			return
		}
		for k := start; k < len(Keys); k++ {
			for _, v := range vals {
				rec(k+1, content{append(cur.keys, k), append(cur.vals, v)})
			}
		}
	}
	rec(0, content{})
	return out
}

func (c content) String() string {
	s := ""
	for i, k := range c.keys {
		s += fmt.Sprintf("k%d=%s ", k, c.vals[i])
	}
	return s
}

// buildTrie builds the content in one of the storage modes: 0 in memory, 1.. committed at level L, and reloaded.
func buildTrie(c content, sh Shared, mode int) (*wmpt.WeightedMerkleTrie, *model.WModel) {
	t, m, _ := buildTrieS(c, sh, mode)
	return t, m
}

// buildTrieS also returns the storage the trie sits on.
func buildTrieS(c content, sh Shared, mode int) (*wmpt.WeightedMerkleTrie, *model.WModel, *dev.Store) {
	s := dev.NewStore()
	t := wmpt.New(nil, s)
	m := model.NewWModel()
	for i, k := range c.keys {
		v := sh.value(c.vals[i], k)
		if err := t.Update(Keys[k], []byte(v), Weight(v)); err != nil {
			panic(err)
		}
		m.M[string(Keys[k])] = model.WEntry{Key: Keys[k], Value: []byte(v), Weight: Weight(v)}
	}
	switch mode {
	case 0:
	case 1, 2, 3:
		b, err := t.Commit([]int{0, 0, 1, 64}[mode])
		if err != nil {
			panic(err)
		}
		if err := b.Commit(false); err != nil {
			panic(err)
		}
	case 4:
		b, err := t.Commit(0)
		if err != nil {
			panic(err)
		}
		_ = b.Commit(false)
		t = Reopened(s, m.Root(), m.Total())
	case 5, 6:
		// a snapshot (CopyRoot, fully in memory / collapsed below level 1) of a committed trie whose source
		// goes on changing every key afterwards: the snapshot keeps the content it was taken with
		b, err := t.Commit(64)
		if err != nil {
			panic(err)
		}
		if err := b.Commit(false); err != nil {
			panic(err)
		}
		snap := wmpt.New(t.CopyRoot([]int{64, 1}[mode-5]), s)
		for i, k := range c.keys {
			v := sh.value(map[string]string{"a": "b", "b": "c", "c": "a"}[c.vals[i]], k)
			if i%2 == 1 {
				v = ""
			}
			if err := t.Update(Keys[k], []byte(v), Weight(v)); err != nil {
				panic(err)
			}
		}
		_ = t.Root()
		t = snap
	}
	return t, m, s
}

type proofElems [][]byte

func decodeProof(p []byte) (proofElems, error) {
	var pt wmpt.PersistTrie
	if err := cbor.Unmarshal(p, &pt); err != nil {
		return nil, err
	}
	var out proofElems
	for _, pr := range pt.Pairs {
		out = append(out, pr.Value)
	}
	return out, nil
}

func encodeProof(es proofElems) []byte {
	pt := wmpt.PersistTrie{}
	for _, e := range es {
		pt.Pairs = append(pt.Pairs, &wmpt.PersistTriePair{Value: e})
	}
	b, err := cbor.Marshal(&pt)
	if err != nil {
		panic(err)
	}
	return b
}

func cloneElems(es proofElems) proofElems {
	out := make(proofElems, len(es))
	for i, e := range es {
		out[i] = append([]byte(nil), e...)
	}
	return out
}

// structural tamperings of one proof; emit receives the tampered element list and a label.
func structural(es proofElems, pool [][]byte, emit func(proofElems, string)) {
	for m, raw := range es {
		var nb wmpt.PersistNodeBase
		if err := cbor.Unmarshal(raw, &nb); err != nil {
			continue
		}
		reenc := func(label string) {
			b, err := cbor.Marshal(&nb)
			if err != nil {
				return
			}
			t := cloneElems(es)
			t[m] = b
			emit(t, label)
		}
		if nb.Branch != nil {
			orig := nb.Branch.Children
			var idx []int
			for i, c := range orig {
				if len(c) >= 40 {
					idx = append(idx, i)
				}
			}
			cp := func() [][]byte {
				c := make([][]byte, len(orig))
				for i := range orig {
					c[i] = append([]byte(nil), orig[i]...)
				}
				return c
			}
			// (1) re-weighting: move delta from child i to child j, sum preserved
			for _, i := range idx {
				wi := binary.BigEndian.Uint64(orig[i][32:40])
				for _, j := range idx {
					if i == j {
						continue
					}
					wj := binary.BigEndian.Uint64(orig[j][32:40])
					for d := uint64(1); d <= wi; d++ {
						c := cp()
						binary.BigEndian.PutUint64(c[i][32:40], wi-d)
						binary.BigEndian.PutUint64(c[j][32:40], wj+d)
						nb.Branch.Children = c
						reenc(fmt.Sprintf("element %d: move weight %d from child %x to child %x", m, d, i, j))
					}
				}
			}
			// (2) swap sibling entries (also into empty slots)
			for a := 0; a < 16; a++ {
				for b := a + 1; b < 16; b++ {
					if len(orig[a]) == 0 && len(orig[b]) == 0 {
						continue
					}
					c := cp()
					c[a], c[b] = c[b], c[a]
					nb.Branch.Children = c
					reenc(fmt.Sprintf("element %d: swap children %x and %x", m, a, b))
				}
			}
			nb.Branch.Children = orig
		}
		if nb.Short != nil && len(nb.Short.Value) == 40 {
			orig := append([]byte(nil), nb.Short.Value...)
			w := binary.BigEndian.Uint64(orig[32:])
			for _, nw := range []uint64{0, 1, w - 1, w + 1, w + 2, 2 * w, ^uint64(0)} {
				if nw == w {
					continue
				}
				v := append([]byte(nil), orig...)
				binary.BigEndian.PutUint64(v[32:], nw)
				nb.Short.Value = v
				reenc(fmt.Sprintf("element %d: short node claims child weight %d instead of %d", m, nw, w))
			}
			nb.Short.Value = orig
		}
		if nb.Value != nil {
			w := nb.Value.Weight
			for _, nw := range []uint64{0, 1, w - 1, w + 1, 2 * w, ^uint64(0)} {
				if nw == w {
					continue
				}
				nb.Value.Weight = nw
				reenc(fmt.Sprintf("element %d: value node claims weight %d instead of %d", m, nw, w))
			}
			nb.Value.Weight = w
		}
	}
	// (3) substitute element m by every element of the pool (other proofs of this trie and of a second trie)
	for m := range es {
		for pi, pe := range pool {
			if bytes.Equal(pe, es[m]) {
				continue
			}
			t := cloneElems(es)
			t[m] = pe
			emit(t, fmt.Sprintf("element %d replaced by pool element %d", m, pi))
		}
	}
	// (4) drop / duplicate each element, every truncation
	for m := range es {
		t := append(cloneElems(es[:m]), cloneElems(es[m+1:])...)
		emit(t, fmt.Sprintf("element %d dropped", m))
		d := append(cloneElems(es[:m+1]), cloneElems(es[m:])...)
		emit(d, fmt.Sprintf("element %d duplicated", m))
		emit(cloneElems(es[:m]), fmt.Sprintf("truncated to %d elements", m))
	}
	// (5) elements AFTER the end of the path: every pool element appended to the complete proof (a verifier that
	// goes on walking past the value node would end up with the last value it meets)
	for pi, pe := range pool {
		emit(append(cloneElems(es), pe), fmt.Sprintf("pool element %d appended after the last element", pi))
	}
	// reversed order
	r := cloneElems(es)
	for i, j := 0, len(r)-1; i < j; i, j = i+1, j-1 {
		r[i], r[j] = r[j], r[i]
	}
	emit(r, "elements reversed")
}

// refVerify is the documented verification algorithm transliterated (navigation by the
// claimed child weights, hash = H(BE sum of claimed weights || child hashes)). It is the
// discriminator for the open finding: a forgery that this reference also accepts is the
// known design weakness; a forgery it rejects is a new defect of the implementation.
func refVerify(es proofElems, block uint64) (root, value []byte, ok bool) {
	ind := 0
	var rec func(block uint64) ([]byte, uint64, []byte, bool) // hash, weight, value
	rec = func(block uint64) ([]byte, uint64, []byte, bool) {
		if ind >= len(es) {
			return nil, 0, nil, false
		}
		var nb wmpt.PersistNodeBase
		if err := cbor.Unmarshal(es[ind], &nb); err != nil {
			return nil, 0, nil, false
		}
		ind++
		switch {
		case nb.Branch != nil:
			type ch struct {
				hash   []byte
				weight uint64
				short  bool
			}
			var cs [16]*ch
			var total uint64
			for i, c := range nb.Branch.Children {
				if i < 16 && len(c) >= 40 {
					cs[i] = &ch{hash: c[:32], weight: binary.BigEndian.Uint64(c[32:40]), short: len(c) > 40}
					if len(c) > 40 && len(c) < 72 {
						return nil, 0, nil, false
					}
					total += cs[i].weight
				}
			}
			for i := 0; i < 16; i++ {
				if cs[i] == nil {
					continue
				}
				if block <= cs[i].weight {
					h, _, v, ok := rec(block)
					if !ok {
						return nil, 0, nil, false
					}
					buf := make([]byte, 8)
					binary.BigEndian.PutUint64(buf, total)
					for j := 0; j < 16; j++ {
						switch {
						case j == i:
							buf = append(buf, h...)
						case cs[j] != nil:
							buf = append(buf, cs[j].hash...)
						default:
							buf = append(buf, model.Sha3(nil)...)
						}
					}
					return model.Sha3(buf), total, v, true
				}
				block -= cs[i].weight
			}
			return nil, 0, nil, false
		case nb.Value != nil:
			if block > nb.Value.Weight {
				return nil, 0, nil, false
			}
			buf := make([]byte, 8)
			binary.BigEndian.PutUint64(buf, nb.Value.Weight)
			return model.Sha3(append(buf, nb.Value.Value...)), nb.Value.Weight, nb.Value.Value, true
		case nb.Short != nil:
			if len(nb.Short.Value) != 40 {
				return nil, 0, nil, false
			}
			w := binary.BigEndian.Uint64(nb.Short.Value[32:])
			if block > w {
				return nil, 0, nil, false
			}
			h, cw, v, ok := rec(block)
			if !ok {
				return nil, 0, nil, false
			}
			return model.Sha3(append(append([]byte{}, nb.Short.Key...), h...)), cw, v, true
		}
		return nil, 0, nil, false
	}
	h, _, v, ok := rec(block)
	return h, v, ok
}

func C10(tier rt.Tier) int {
	rep := rt.NewReport("C10", tier)
	// bit flips are enumerated for contents of <= flipKeys keys, structural tampering for all
	maxKeys, flipKeys, modes := 3, 2, []int{0, 1, 4, 5}
	if tier == rt.Thorough {
		maxKeys, flipKeys, modes = 4, 3, []int{0, 1, 2, 3, 4, 5, 6}
	}
	cs := contents(maxKeys, []string{"a", "b"})
	// live entries of weight 0 ("every trie content"; C09's positive weights are not assumed here): beside and
	// between weighted keys and in deep pairs (a non-empty trie of TOTAL weight 0 is left out: the library's own
	// idiom - Rollback, RollbackTrie, reopening from root hash and weight - takes weight 0 for "empty")
	cs = append(cs,
		content{[]int{0, 1}, []string{"z", "a"}}, content{[]int{0, 1}, []string{"a", "z"}},
		content{[]int{0, 2, 5}, []string{"z", "a", "b"}}, content{[]int{0, 2, 5}, []string{"a", "z", "b"}}, content{[]int{0, 1, 5}, []string{"b", "z", "z"}},
		content{[]int{0, 2, 4, 5}, []string{"z", "a", "z", "b"}}, content{[]int{0, 1, 2}, []string{"z", "z", "a"}})
	// a second trie whose proof elements serve as substitution material
	second, _ := buildTrie(content{keys: []int{0, 3, 5}, vals: []string{"b", "b", "a"}}, Shared(true), 0)
	var foreign [][]byte
	for b := uint64(1); b <= second.Weight(); b++ {
		if _, p, err := second.GetBlockProof(b); err == nil {
			es, _ := decodeProof(p)
			foreign = append(foreign, es...)
		}
	}
	var honest, tampered, verifs, forgedKnown, accepted, faulted int64
	var mu sync.Mutex
	reported := map[string]bool{}
	knownWitness := ""
	violate := func(key, msg string, replay map[string]any) {
		mu.Lock()
		defer mu.Unlock()
		if !reported[key] {
			reported[key] = true
			rep.Violate(msg, replay)
		}
	}
	work := make(chan content, len(cs))
	for _, c := range cs {
		work <- c
	}
	close(work)
	var wg sync.WaitGroup
	for w := 0; w < rt.Workers(); w++ {
		wg.Add(1)
		go func() {
			defer wg.Done()
			for c := range work {
				for _, mode := range modes {
					func() {
						defer func() {
							if r := recover(); r != nil {
								violate("panic", fmt.Sprintf("content {%s} mode %d: panic: %v", c, mode, r), map[string]any{"content": c.String(), "mode": mode})
							}
						}()
						t, m := buildTrie(c, Shared(false), mode)
						root, total := m.Root(), m.Total()
						proofs := map[uint64]proofElems{}
						var pool [][]byte
						for b := uint64(1); b <= total; b++ {
							own, _ := m.Owner(b)
							key, p, err := t.GetBlockProof(b)
							if err != nil || !bytes.Equal(key, own.Key) {
								violate("honest-get", fmt.Sprintf("content {%s} mode %d: GetBlockProof(%d) = key %x, %v; owner %x", c, mode, b, key, err, own.Key), map[string]any{"content": c.String(), "mode": mode, "block": b})
								return
							}
							h, v, err := (&wmpt.WeightedMerkleTrie{}).VerifyBlockProof(b, p)
							atomic.AddInt64(&honest, 1)
							if err != nil || !bytes.Equal(h, root) || !bytes.Equal(v, own.Value) {
								violate("honest-verify", fmt.Sprintf("content {%s} mode %d: honest proof of block %d verifies to (%x, %q, %v), want (%x, %q)", c, mode, b, h, v, err, root, own.Value), map[string]any{"content": c.String(), "mode": mode, "block": b})
								return
							}
							es, err := decodeProof(p)
							if err != nil {
								violate("decode", "cannot decode an honest proof: "+err.Error(), nil)
								return
							}
							proofs[b] = es
							pool = append(pool, es...)
						}
						pool = append(pool, foreign...)
						// proofs BETWEEN changes: the same trie object, having served every proof above, is changed step by
						// step (every key in turn gets another value, then every live key is deleted one after the other,
						// nothing is committed in between) and must serve the proofs of its new content after every step
						{
							t2, m2 := buildTrie(c, Shared(false), mode)
							for b := uint64(1); b <= m2.Total(); b++ {
								_, _, _ = t2.GetBlockProof(b)
							}
							type step struct {
								k int
								v string
							}
							var steps []step
							for k := range Keys {
								nv := "b"
								if e, ok := m2.M[string(Keys[k])]; ok && len(e.Value) > 0 && e.Value[0] == 'b' {
									nv = "a"
								}
								steps = append(steps, step{k, nv})
							}
							for k := range Keys {
								steps = append(steps, step{k, ""})
							}
							for si, st := range steps {
								v := Shared(false).value(st.v, st.k)
								if st.v == "" {
									v = ""
								}
								if err := t2.Update(Keys[st.k], []byte(v), Weight(v)); err != nil {
									violate("between-update", fmt.Sprintf("content {%s} mode %d: step %d (k%d=%q) after proofs had been served: Update returned %v", c, mode, si, st.k, st.v, err), map[string]any{"content": c.String(), "mode": mode, "step": si})
									return
								}
								if v == "" {
									delete(m2.M, string(Keys[st.k]))
								} else {
									m2.M[string(Keys[st.k])] = model.WEntry{Key: Keys[st.k], Value: []byte(v), Weight: Weight(v)}
								}
								r2 := m2.Root()
								for b := uint64(1); b <= m2.Total(); b++ {
									own, _ := m2.Owner(b)
									key, p, err := t2.GetBlockProof(b)
									atomic.AddInt64(&honest, 1)
									if err != nil || !bytes.Equal(key, own.Key) {
										violate("between-get", fmt.Sprintf("content {%s} mode %d: after step %d (k%d=%q, nothing committed since) GetBlockProof(%d) = key %x, %v; owner %x", c, mode, si, st.k, st.v, b, key, err, own.Key), map[string]any{"content": c.String(), "mode": mode, "step": si, "block": b})
										return
									}
									h, val, err := (&wmpt.WeightedMerkleTrie{}).VerifyBlockProof(b, p)
									if err != nil || !bytes.Equal(h, r2) || !bytes.Equal(val, own.Value) {
										violate("between-verify", fmt.Sprintf("content {%s} mode %d: after step %d (k%d=%q, nothing committed since) the proof of block %d verifies to (%x, %q, %v), want (%x, %q): the trie served proofs before the change", c, mode, si, st.k, st.v, b, h, val, err, r2, own.Value), map[string]any{"content": c.String(), "mode": mode, "step": si, "block": b})
										return
									}
								}
							}
						}
						// a proof request that FAILS (storage read error at every position of every block's walk, on a
						// freshly built trie) must not influence the next proof, of this trie or of another one
						if mode != 0 && mode != 5 {
							for b := uint64(1); b <= total; b++ {
								for k := 0; k < 12; k++ {
									ft, fm, fst := buildTrieS(c, Shared(false), mode)
									fst.ArmGetFault(k)
									_, _, ferr := ft.GetBlockProof(b)
									hit := fst.GetFaultHit
									fst.ArmGetFault(-1)
									if !hit {
										break
									}
									atomic.AddInt64(&faulted, 1)
									for _, nt := range []struct {
										name string
										t    *wmpt.WeightedMerkleTrie
										m    *model.WModel
									}{{"the same trie", ft, fm}, {"another (in-memory) trie", t, m}} {
										for vb := uint64(1); vb <= nt.m.Total(); vb++ {
											own, _ := nt.m.Owner(vb)
											key, p, err := nt.t.GetBlockProof(vb)
											var h, v []byte
											if err == nil {
												h, v, err = (&wmpt.WeightedMerkleTrie{}).VerifyBlockProof(vb, p)
											}
											if err != nil || !bytes.Equal(key, own.Key) || !bytes.Equal(h, nt.m.Root()) || !bytes.Equal(v, own.Value) {
												violate("after-failed-proof", fmt.Sprintf("content {%s} mode %d: GetBlockProof(%d) failed on storage read %d (%v); the next proof, of block %d on %s, gives key %x and verifies to (%x, %q, %v); want key %x, (%x, %q)", c, mode, b, k, ferr, vb, nt.name, key, h, v, err, own.Key, nt.m.Root(), own.Value), map[string]any{"content": c.String(), "mode": mode, "block": b, "failed_read": k})
												return
											}
										}
									}
								}
							}
						}
						check := func(b uint64, raw []byte, es proofElems, label string) {
							atomic.AddInt64(&tampered, 1)
							for vb := uint64(1); vb <= total; vb++ {
								atomic.AddInt64(&verifs, 1)
								h, v, err := (&wmpt.WeightedMerkleTrie{}).VerifyBlockProof(vb, raw)
								if err != nil || !bytes.Equal(h, root) {
									continue
								}
								atomic.AddInt64(&accepted, 1)
								own, inRange := m.Owner(vb)
								if inRange && bytes.Equal(v, own.Value) {
									continue
								}
								// forged: trusted root together with a value that is not the true owner's
								msg := fmt.Sprintf("content {%s} mode %d: proof of block %d with [%s] verifies for block %d against the trusted root and yields %q; the true owner's value is %q", c, mode, b, label, vb, v, own.Value)
								if es != nil && rt.OpenFinding("C10-weights-not-bound") {
									if rh, rv, ok := refVerify(es, vb); ok && bytes.Equal(rh, root) && bytes.Equal(rv, v) {
										atomic.AddInt64(&forgedKnown, 1)
										mu.Lock()
										if knownWitness == "" || len(msg) < len(knownWitness) {
											knownWitness = msg
										}
										mu.Unlock()
										continue
									}
								}
								violate("forged:"+label[:min(len(label), 24)], msg, map[string]any{"content": c.String(), "mode": mode, "block": b, "verify_block": vb, "tampering": label, "proof_hex": fmt.Sprintf("%x", raw)})
							}
						}
						for b, es := range proofs {
							structural(es, pool, func(t proofElems, label string) { check(b, encodeProof(t), t, label) })
							// (5) every single-bit flip of the serialised proof
							if len(c.keys) > flipKeys || (tier == rt.Quick && mode == 1) {
								continue
							}
							raw := encodeProof(es)
							for i := range raw {
								for bit := 0; bit < 8; bit++ {
									f := append([]byte(nil), raw...)
									f[i] ^= 1 << uint(bit)
									fes, _ := decodeProof(f)
									check(b, f, fes, fmt.Sprintf("bit %d of byte %d flipped", bit, i))
								}
							}
						}
					}()
				}
			}
		}()
	}
	wg.Wait()
	combProofs(rep)
	if forgedKnown > 0 {
		for i := int64(0); i < forgedKnown; i++ {
			rep.KnownHit("C10-weights-not-bound", knownWitness, "VerifyBlockProof returns the trusted root with another key's value")
		}
	}
	rep.Set("states", len(cs)*len(modes))
	rep.Set("transitions", int(tampered))
	rep.Set("traces_validated_against_impl", int(verifs))
	rep.Set("evaluations", int(verifs))
	rep.Set("distinct_nontrivial", int(tampered))
	rep.Set("honest_proofs_verified", int(honest))
	rep.Set("tampered_proofs", int(tampered))
	rep.Set("failed_proof_requests_followed_up", int(faulted))
	rep.Set("tampered_verifications_yielding_trusted_root", int(accepted))
	rep.Set("rule", fmt.Sprintf("every content of <= %d live keys (of six keys sharing 63/3/2/1/0 nibbles, two values each) in storage modes %v (0 memory, 1 committed level 0, 2 level 1, 3 level 64, 4 reloaded): every block's honest proof must verify to (root, owner's value); after a proof request that failed on a storage read error (every read position, stored modes) every following proof of the same and of another trie must still be honest; every honest proof is tampered by COMPLETE enumeration of: re-weighting (every ordered child pair, every delta, sum preserved), claimed weights of short/value nodes, every sibling swap, substitution of every element by every element of every other proof of the trie and of a second trie, drop/duplicate/truncate/reverse, and (for contents of <= %d keys) every single-bit flip; each tampered proof is verified for EVERY block 1..W; oracle: trusted root returned => value is the true owner's", maxKeys, modes, flipKeys))
	rep.Sample(map[string]any{"content": cs[len(cs)/2].String(), "tampering": "element 0: move weight 1 from child 0 to child 1"})
	rep.Assumption("a forgery is attributed to the open finding C10-weights-not-bound only if the reference verifier (documented algorithm, navigation by claimed weights) accepts it too with the same root and value")
	return rep.Finish()
}
