//go:build covaudit

package main

import (
	"fmt"
	"os"
	"runtime/coverage"
)

// Coverage audit build (go build -tags "nodump covaudit" -cover -coverpkg=github.com/0chain/common/...):
// writes the coverage counters of the code under test explicitly before the process exits, so that the
// functions of the anchored files that no harness ever calls can be listed (DESIGN 8.5).
func init() {
	exitHook = func() {
		dir := os.Getenv("GOCOVERDIR")
		if dir == "" {
			return
		}
		if err := coverage.WriteMetaDir(dir); err != nil {
			fmt.Fprintln(os.Stderr, "covaudit:", err)
		}
		if err := coverage.WriteCountersDir(dir); err != nil {
			fmt.Fprintln(os.Stderr, "covaudit:", err)
		}
	}
}
