// mkoverlay regenerates the build overlay from /repo's current files:
//   - every non-test file of the target packages that imports "sync" gets the import
//     rewritten to `sync "verifmc/vsync"` (mode sched only);
//   - the private-state dump files under /verif/overlay_src are added to their packages.
//
// usage: mkoverlay <mode: plain|sched> <outdir>   (prints the overlay JSON path)
package main

import (
	"bytes"
	"encoding/json"
	"fmt"
	"go/ast"
	"go/format"
	"go/parser"
	"go/token"
	"os"
	"path/filepath"
	"strings"
)

var schedPkgs = []string{"core/statecache", "core/util", "core/logging"}

// touch describes one Touch point: before the first statement of method recv.fn whose source
// contains `before`, insert stmt ($R = receiver name). Touch marks an access to shared memory
// that is not (or not consistently) protected by a lock, so that the explorer can decide the
// data-race clauses for these fields. Anchors that no longer exist are skipped with a note.
type touch struct {
	pkg, file, recv, fn, before, stmt string
}

var touches = []touch{
	{"core/util", "merkle_patricia_trie.go", "MerklePatriciaTrie", "addMissingNodeKeys", "= append(", `sync.Touch(&$R.missingNodeKeys, true, "MerklePatriciaTrie.missingNodeKeys")`},
	{"core/util", "merkle_patricia_trie.go", "MerklePatriciaTrie", "GetMissingNodeKeys", "make([]Key", `sync.Touch(&$R.missingNodeKeys, false, "MerklePatriciaTrie.missingNodeKeys")`},
	// between reading the write position and advancing it: a writer that is not excluded by the same
	// lock can slip in here (address = the shared write position)
	{"core/logging", "inmemory_logger.go", "MemCore", "Write", "entry.Entry = ent", `sync.Touch(cur, true, "MemCore ring buffer")`},
	{"core/logging", "inmemory_logger.go", "MemLogger", "GetLogs", ".r.Do(", `sync.Touch(&$R.core.r, false, "MemCore ring buffer")`},
}

func applyTouches(fset *token.FileSet, f *ast.File, pkg, file string) {
	if os.Getenv("VERIF_NOTOUCH") != "" {
		return
	}
	for _, t := range touches {
		if t.pkg != pkg || t.file != file {
			continue
		}
		done := false
		for _, d := range f.Decls {
			fd, ok := d.(*ast.FuncDecl)
			if !ok || fd.Name.Name != t.fn || fd.Recv == nil || len(fd.Recv.List) == 0 || fd.Body == nil {
				continue
			}
			var rb bytes.Buffer
			_ = format.Node(&rb, fset, fd.Recv.List[0].Type)
			if strings.TrimPrefix(rb.String(), "*") != t.recv || len(fd.Recv.List[0].Names) == 0 {
				continue
			}
			rname := fd.Recv.List[0].Names[0].Name
			for i, st := range fd.Body.List {
				var sb bytes.Buffer
				_ = format.Node(&sb, fset, st)
				if !strings.Contains(sb.String(), t.before) {
					continue
				}
				ex, err := parser.ParseExpr(strings.ReplaceAll(t.stmt, "$R", rname))
				if err != nil {
					fatal(err)
				}
				list := append([]ast.Stmt{}, fd.Body.List[:i]...)
				list = append(list, &ast.ExprStmt{X: ex})
				fd.Body.List = append(list, fd.Body.List[i:]...)
				done = true
				break
			}
		}
		if !done {
			fmt.Fprintf(os.Stderr, "mkoverlay: note: Touch anchor %s.%s (%q) not found in %s/%s, skipped\n", t.recv, t.fn, t.before, pkg, file)
		}
	}
}

func main() {
	mode, out := os.Args[1], os.Args[2]
	repo := "/repo"
	if r := os.Getenv("VERIF_ALT_REPO"); r != "" {
		repo = r // development only (bin/seedtest.sh on a scratch copy while /repo is in use); the registered checks never set it
	}
	if r := os.Getenv("VERIF_REPO"); r != "" {
		repo = r
	}
	root := os.Getenv("VERIF_ROOT")
	if root == "" {
		root = "/verif"
	}
	_ = os.MkdirAll(out, 0o755)
	repl := map[string]string{}
	if mode == "sched" {
		for _, p := range schedPkgs {
			dir := filepath.Join(repo, p)
			ents, err := os.ReadDir(dir)
			if err != nil {
				fatal(err)
			}
			for _, e := range ents {
				n := e.Name()
				if e.IsDir() || !strings.HasSuffix(n, ".go") || strings.HasSuffix(n, "_test.go") {
					continue
				}
				src := filepath.Join(dir, n)
				fset := token.NewFileSet()
				f, err := parser.ParseFile(fset, src, nil, parser.ParseComments)
				if err != nil {
					fatal(err)
				}
				changed := false
				for _, im := range f.Imports {
					if im.Path.Value == `"sync"` {
						im.Path.Value = `"verifmc/vsync"`
						if im.Name == nil {
							im.Name = ast.NewIdent("sync")
						}
						changed = true
					}
				}
				if !changed {
					continue
				}
				applyTouches(fset, f, p, n)
				var buf bytes.Buffer
				if err := format.Node(&buf, fset, f); err != nil {
					fatal(err)
				}
				if os.Getenv("VERIF_BUF4") != "" && n == "inmemory_logger.go" {
					src := buf.String()
					if !strings.Contains(src, "BufferSize = 1024") {
						fatal(fmt.Errorf("BufferSize constant not found in %s", n))
					}
					buf.Reset()
					buf.WriteString(strings.Replace(src, "BufferSize = 1024", "BufferSize = 4", 1))
				}
				dst := filepath.Join(out, strings.ReplaceAll(p, "/", "_")+"_"+n)
				if err := os.WriteFile(dst, buf.Bytes(), 0o644); err != nil {
					fatal(err)
				}
				repl[src] = dst
			}
		}
	}
	if os.Getenv("VERIF_SMALL") != "" {
		// variant "small": size thresholds of the code under test scaled down so that the bounded
		// exploration crosses them (one constant per line below, nothing else differs)
		for _, sc := range []struct{ file, from, to string }{
			{"core/util/mpt_pnodedb.go", "maxPruneNodes = 1000", "maxPruneNodes = 2"}, // PruneBelowVersion deletes in batches of 2
			{"core/util/mpt_nodedb.go", "BatchSize = 256", "BatchSize = 2"},           // batching of multi-node store operations
		} {
			src := filepath.Join(repo, sc.file)
			b, err := os.ReadFile(src)
			if err != nil {
				fatal(err)
			}
			if !strings.Contains(string(b), sc.from) {
				fatal(fmt.Errorf("constant %q not found in %s", sc.from, sc.file))
			}
			dst := filepath.Join(out, strings.ReplaceAll(sc.file, "/", "_")+".small.go")
			if err := os.WriteFile(dst, []byte(strings.Replace(string(b), sc.from, sc.to, 1)), 0o644); err != nil {
				fatal(err)
			}
			repl[src] = dst
		}
	}
	// added dump files: overlay_src/<pkg path with _>/<file>.go -> /repo/<pkg>/<file>.go
	srcRoot := filepath.Join(root, "overlay_src")
	_ = filepath.Walk(srcRoot, func(p string, info os.FileInfo, err error) error {
		if err != nil || info.IsDir() || !strings.HasSuffix(p, ".go") {
			return nil
		}
		rel, _ := filepath.Rel(srcRoot, p)
		repl[filepath.Join(repo, rel)] = p
		return nil
	})
	b, _ := json.MarshalIndent(map[string]any{"Replace": repl}, "", " ")
	dst := filepath.Join(out, "overlay.json")
	if err := os.WriteFile(dst, b, 0o644); err != nil {
		fatal(err)
	}
	fmt.Println(dst)
}

func fatal(err error) {
	fmt.Fprintln(os.Stderr, "mkoverlay:", err)
	os.Exit(2)
}
