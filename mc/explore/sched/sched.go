// Package sched is engine E2: stateless, preemption-bounded depth-first exploration
// of all schedules of a small multi-threaded scenario over the real code, whose
// import of "sync" has been rewritten to verifmc/vsync.
package sched

import (
	"fmt"
	"sort"
	"time"

	"verifmc/vsync"
)

// Scenario builds a fresh pre-state for every execution.
type Scenario struct {
	Name string
	Doc  string
	// Make returns the thread bodies and a judge that is called after all threads
	// finished (sequentially, no scheduler attached). The judge returns a canonical
	// rendering of everything observed (the "outcome") and a failure text ("" = ok).
	Make     func() (bodies []func(), judge func() (outcome string, fail string))
	MaxSteps int
}

type Failure struct {
	Msg      string
	Choices  []int
	Outcome  string
	Bound    int
	Schedule []string
}

type BoundStats struct {
	Bound      int  `json:"preemption_bound"` // -1 = unbounded
	Executions int  `json:"executions"`
	Complete   bool `json:"complete"`
}

type Stats struct {
	Name       string           `json:"name"`
	Doc        string           `json:"doc"`
	Bounds     []BoundStats     `json:"bounds"`
	Executions int              `json:"executions"`
	Outcomes   map[string]int   `json:"distinct_outcomes"`
	FirstSched map[string][]int `json:"first_schedule_per_outcome"`
	MaxPoints  int              `json:"max_decision_points"`
	Threads    int              `json:"threads"`
	Failures   []Failure        `json:"-"`
	NFailures  int              `json:"failures"`
	Races      map[string]int   `json:"races,omitempty"`
	WallS      float64          `json:"wall_s"`
	Exhaustive bool             `json:"exhaustive"`
	Cap        string           `json:"cap,omitempty"`
}

type explorer struct {
	sc       Scenario
	st       *Stats
	bound    int
	deadline time.Time
	execs    int
	stopped  bool
	seenFail map[string]bool
}

func (e *explorer) runOnce(prefix []int) *vsync.Sched {
	bodies, judge := e.sc.Make()
	max := e.sc.MaxSteps
	if max == 0 {
		max = 100000
	}
	s := vsync.Run(prefix, max, bodies)
	e.execs++
	e.st.Executions++
	e.st.Threads = len(bodies)
	if len(s.Points) > e.st.MaxPoints {
		e.st.MaxPoints = len(s.Points)
	}
	var outcome, fail string
	if s.Err != "" {
		outcome, fail = "ERR:"+s.Err, s.Err
	} else {
		outcome, fail = judge()
	}
	for _, r := range s.Races {
		e.st.Races[r]++
		if fail == "" {
			fail = r
		}
	}
	e.st.Outcomes[outcome]++
	if _, ok := e.st.FirstSched[outcome]; !ok {
		e.st.FirstSched[outcome] = s.Choices()
	}
	if fail != "" {
		e.st.NFailures++
		if !e.seenFail[fail] && len(e.st.Failures) < 10 {
			e.seenFail[fail] = true
			var sch []string
			for _, p := range s.Points {
				sch = append(sch, fmt.Sprintf("%s:T%d", p.At, p.Enabled[p.Chosen]))
			}
			e.st.Failures = append(e.st.Failures, Failure{Msg: fail, Choices: s.Choices(), Outcome: outcome, Bound: e.bound, Schedule: sch})
		}
	}
	return s
}

func (e *explorer) explore(prefix []int) {
	if e.stopped {
		return
	}
	if !e.deadline.IsZero() && e.execs%64 == 0 && time.Now().After(e.deadline) {
		e.stopped = true
		return
	}
	s := e.runOnce(prefix)
	pre := 0
	for i, p := range s.Points {
		if i >= len(prefix) {
			for alt := 1; alt < len(p.Enabled); alt++ {
				cost := pre
				if p.CurEnabled {
					cost++
				}
				if e.bound >= 0 && cost > e.bound {
					continue
				}
				np := make([]int, i+1)
				for j := 0; j < i; j++ {
					np[j] = s.Points[j].Chosen
				}
				np[i] = alt
				e.explore(np)
				if e.stopped {
					return
				}
			}
		}
		if p.CurEnabled && p.Chosen != 0 {
			pre++
		}
	}
}

// Explore iterates the preemption bound over bounds (use -1 for unbounded) and
// stops at the first bound that produced a failure.
func Explore(sc Scenario, bounds []int, deadline time.Time) *Stats {
	st := &Stats{Name: sc.Name, Doc: sc.Doc, Outcomes: map[string]int{}, FirstSched: map[string][]int{}, Races: map[string]int{}, Exhaustive: true}
	t0 := time.Now()
	for _, b := range bounds {
		e := &explorer{sc: sc, st: st, bound: b, deadline: deadline, seenFail: map[string]bool{}}
		// each bound re-explores the smaller ones; outcomes are counted per bound run
		st.Outcomes = map[string]int{}
		e.explore(nil)
		st.Bounds = append(st.Bounds, BoundStats{Bound: b, Executions: e.execs, Complete: !e.stopped})
		if e.stopped {
			st.Exhaustive = false
			st.Cap = fmt.Sprintf("time budget reached inside preemption bound %d after %d executions", b, e.execs)
			break
		}
		if st.NFailures > 0 {
			break
		}
	}
	st.WallS = time.Since(t0).Seconds()
	return st
}

// Replay runs one schedule twice and checks that both runs observe the same thing.
func Replay(sc Scenario, choices []int) (outcome, fail string, deterministic bool) {
	run := func() (string, string) {
		bodies, judge := sc.Make()
		s := vsync.Run(choices, sc.MaxSteps, bodies)
		if s.Err != "" {
			return "ERR:" + s.Err, s.Err
		}
		o, f := judge()
		for _, r := range s.Races {
			if f == "" {
				f = r
			}
		}
		return o, f
	}
	o1, f1 := run()
	o2, f2 := run()
	return o1, f1, o1 == o2 && f1 == f2
}

// OutcomeList renders the outcome histogram deterministically.
func (st *Stats) OutcomeList() []string {
	var ks []string
	for k, n := range st.Outcomes {
		ks = append(ks, fmt.Sprintf("%dx %s", n, k))
	}
	sort.Strings(ks)
	return ks
}
