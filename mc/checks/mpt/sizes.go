package mpt

import (
	"crypto/sha256"
	"fmt"
	"strings"
	"sync"
	"sync/atomic"

	"verifmc/rt"
)

// ---- value-size sweeps (engine E4): the BFS alphabets use one- and few-byte values; buffer sizes,
// length fields and size limits of the code sit at sizes no such alphabet reaches. A sweep enumerates
// EVERY value length of a range on every node shape that can carry a value, on a memory store and
// on the persistent store (save + reopen, so the value also goes through encode/decode).

const h64a = "3f9a0c5d7e1b2a4968f0e1d2c3b4a5968778695a4b3c2d1e0f11223344556677"

var h64b = h64a[:62] + "a1" // shares 62 of 64 characters with h64a: a leaf with a 1-character path under a branch

type sizeShape struct {
	name string
	big  string   // the path that carries the swept value
	rest []string // other paths (value "x")
}

var sizeShapes = []sizeShape{
	{name: "single leaf, 2-character path", big: "aa"},
	{name: "single leaf, 64-character path", big: h64a},
	{name: "value on a branch node (its path is a proper prefix of another)", big: "aa", rest: []string{"aaab", "aab0"}},
	{name: "leaf with a 1-character path under a deep branch", big: h64a, rest: []string{h64b}},
	{name: "leaf with an empty path under a branch", big: "aaab", rest: []string{"aaaa", "aaac"}},
	{name: "value on a branch with all 16 children", big: "aa", rest: []string{"aa0a", "aa1a", "aa2a", "aa3a", "aa4a", "aa5a", "aa6a", "aa7a", "aa8a", "aa9a", "aaaa", "aaba", "aaca", "aada", "aaea", "aafa"}},
	{name: "single leaf, 80-character path", big: h64a + "0123456789abcdef"},
	{name: "130-character path next to one differing in its last character", big: h64a + h64a + "a1", rest: []string{h64a + h64a + "a2"}},
}

// sizedValue is a printable value of length n whose every byte depends on its position (a truncated,
// shifted or partly dropped value is a different value) and on n.
func sizedValue(n int, salt byte) string {
	b := make([]byte, n)
	s := int(salt)
	if salt == 2 {
		s = 0 // salt 2: the salt-0 value with only its last byte changed
	}
	for i := range b {
		b[i] = 'A' + byte((i*7+i/251+n+s)%53)
	}
	if salt == 2 && n > 0 {
		b[n-1] ^= 1
	}
	return string(b)
}

func clip(s string) string {
	if len(s) > 700 {
		return s[:350] + " ... [" + fmt.Sprint(len(s)-700) + " bytes] ... " + s[len(s)-350:]
	}
	return s
}

type sizeCase struct {
	Len   int `json:"len"`
	Shape int `json:"shape"`
	Kind  int `json:"kind"`
	Late  int `json:"late"` // 1 = the sized value is inserted after the others, 0 = before
}

func (c sizeCase) String() string {
	order := "first"
	if c.Late == 1 {
		order = "last"
	}
	return fmt.Sprintf("value of %d bytes on shape '%s', inserted %s, store %v", c.Len, sizeShapes[c.Shape].name, order, StoreKind(c.Kind))
}

// runSizeCase builds the trie of one case and judges it; salt selects one of two values of equal
// length that differ in every byte including the last.
func runSizeCase(c sizeCase, version int64, extra extraOracle, tab *rootTable) (fail string) {
	defer func() {
		if r := recover(); r != nil {
			fail = clip(fmt.Sprintf("panic: %v", r))
		}
	}()
	sh := sizeShapes[c.Shape]
	paths := append([]string{sh.big}, sh.rest...)
	for _, salt := range []byte{0, 1, 2} {
		w := NewWorld(StoreKind(c.Kind), version)
		var ops []Op
		big := Op{K: 'I', P: sh.big, V: sizedValue(c.Len, salt)}
		if c.Late == 0 {
			ops = append(ops, big)
		}
		for _, p := range sh.rest {
			ops = append(ops, Op{K: 'I', P: p, V: "x"})
		}
		if c.Late == 1 {
			ops = append(ops, big)
		}
		if StoreKind(c.Kind) != Mem {
			ops = append(ops, Op{K: 'F'})
		}
		for _, o := range ops {
			if c.Len == 0 && o.P == sh.big && o.K == 'I' {
				o.K = 'E' // an empty value is a removal
			}
			if f := w.Apply(o); f != "" {
				w.Close()
				return clip(fmt.Sprintf("%v: %s", o.K, f))
			}
		}
		f := w.Observe(paths)
		if f == "" && extra != nil {
			f = extra(w)
		}
		if f == "" && tab != nil {
			f = tab.check(w)
		}
		w.Close()
		if f != "" {
			return clip(f)
		}
	}
	return ""
}

// sizeSweep enumerates lens x shapes x stores x insertion order.
func sizeSweep(rep *rt.Report, name string, lens []int, kinds []StoreKind, version int64, extra extraOracle, tab *rootTable) {
	run := "size-sweep/" + name
	if rp := rt.Replay; rp != nil {
		if rp.Run != run {
			return
		}
		c := sizeCase{Len: int(rp.Raw["len"].(float64)), Shape: int(rp.Raw["shape"].(float64)), Kind: int(rp.Raw["kind"].(float64)), Late: int(rp.Raw["late"].(float64))}
		f1, f2 := runSizeCase(c, version, extra, nil), runSizeCase(c, version, extra, nil)
		fmt.Printf("REPLAY %s %v\n", run, c)
		if f1 != f2 {
			rt.HarnessError("replay of %v is not deterministic: %q vs %q", c, f1, f2)
		}
		if f1 != "" {
			rep.Violate(fmt.Sprintf("[%s] %v => %s", run, c, f1), nil)
		}
		return
	}
	var cases []sizeCase
	for _, l := range lens {
		for s := range sizeShapes {
			for _, k := range kinds {
				for late := 0; late < 2; late++ {
					if late == 1 && len(sizeShapes[s].rest) == 0 {
						continue
					}
					cases = append(cases, sizeCase{Len: l, Shape: s, Kind: int(k), Late: late})
				}
			}
		}
	}
	var next, done int64
	var mu sync.Mutex
	reported := map[string]bool{}
	var wg sync.WaitGroup
	for i := 0; i < rt.Workers(); i++ {
		wg.Add(1)
		go func() {
			defer wg.Done()
			for {
				j := int(atomic.AddInt64(&next, 1)) - 1
				if j >= len(cases) {
					return
				}
				c := cases[j]
				f := runSizeCase(c, version, extra, tab)
				atomic.AddInt64(&done, 1)
				if f != "" {
					// one report per (shape, store, order, symptom class): neighbouring lengths fail alike
					key := fmt.Sprintf("%d/%d/%d/%s", c.Shape, c.Kind, c.Late, strings.SplitN(f, " ", 3)[0])
					mu.Lock()
					if !reported[key] {
						reported[key] = true
						rep.Violate(fmt.Sprintf("[%s] %v => %s", run, c, f), map[string]any{"run": run, "len": c.Len, "shape": c.Shape, "kind": c.Kind, "late": c.Late})
					} else {
						rep.Add("violations_suppressed_duplicates", 1)
					}
					mu.Unlock()
				}
			}
		}()
	}
	wg.Wait()
	n := int(done)
	rep.Add("states", n)
	rep.Add("transitions", 3*n)
	rep.Add("traces_validated_against_impl", 3*n)
	rep.Add("evaluations", 3*n)
	rep.Add("distinct_nontrivial", n)
	rep.Sub[run] = map[string]any{
		"rule":   fmt.Sprintf("every value length in %s x %d node shapes that carry a value x stores %v x insertion order x three values per length (two differing in every byte, one differing from the first in its last byte only); judged like every BFS state", lenRanges(lens), len(sizeShapes), kinds),
		"cases":  n,
		"shapes": shapeNames(),
	}
}

func shapeNames() []string {
	var out []string
	for _, s := range sizeShapes {
		out = append(out, s.name)
	}
	return out
}

// span returns lo..hi inclusive.
func span(lo, hi int) []int {
	var out []int
	for i := lo; i <= hi; i++ {
		if i >= 0 {
			out = append(out, i)
		}
	}
	return out
}

func spans(pairs ...int) []int {
	seen := map[int]bool{}
	var out []int
	for i := 0; i+1 < len(pairs); i += 2 {
		for _, v := range span(pairs[i], pairs[i+1]) {
			if !seen[v] {
				seen[v] = true
				out = append(out, v)
			}
		}
	}
	return out
}

func lenRanges(lens []int) string {
	var parts []string
	for i := 0; i < len(lens); {
		j := i
		for j+1 < len(lens) && lens[j+1] == lens[j]+1 {
			j++
		}
		if j == i {
			parts = append(parts, fmt.Sprint(lens[i]))
		} else {
			parts = append(parts, fmt.Sprintf("%d..%d", lens[i], lens[j]))
		}
		i = j + 1
	}
	return "{" + strings.Join(parts, ", ") + "}"
}

func contentDigest(s string) string {
	if len(s) < 200 {
		return s
	}
	h := sha256.Sum256([]byte(s))
	return fmt.Sprintf("%s...(%d bytes, sha256 %x)", s[:60], len(s), h[:8])
}

// ---- width sweep: the BFS alphabets use 2-3 path symbols, so a branch never has more than three
// children and most of the 16 child slots are never used. Here every PAIR of the 16 symbols, every
// 15-subset and the full set appear at one path position (the others fixed), i.e. every child slot
// and every pair of slots of a branch at depth 0..3 is exercised, then one path is deleted again.

type widthCase struct {
	Pos  int    `json:"pos"`
	Syms string `json:"symbols"`
	Kind int    `json:"kind"`
}

func (c widthCase) paths() []string {
	var out []string
	for _, s := range c.Syms {
		p := []byte("0a0a")
		p[c.Pos] = byte(s)
		out = append(out, string(p))
	}
	return out
}

func (c widthCase) String() string {
	return fmt.Sprintf("paths 0a0a with position %d taking the symbols %q, store %v", c.Pos, c.Syms, StoreKind(c.Kind))
}

func runWidthCase(c widthCase, version int64, extra extraOracle) (fail string) {
	defer func() {
		if r := recover(); r != nil {
			fail = clip(fmt.Sprintf("panic: %v", r))
		}
	}()
	paths := c.paths()
	w := NewWorld(StoreKind(c.Kind), version)
	defer w.Close()
	step := func(o Op) string {
		if f := w.Apply(o); f != "" {
			return fmt.Sprintf("%v: %s", o, f)
		}
		if f := w.Observe(paths); f != "" {
			return fmt.Sprintf("after %v: %s", o, f)
		}
		if extra != nil {
			if f := extra(w); f != "" {
				return fmt.Sprintf("after %v: %s", o, f)
			}
		}
		return ""
	}
	for i, p := range paths {
		o := Op{K: 'I', P: p, V: fmt.Sprintf("v%d", i)}
		if i < len(paths)-1 {
			// judged once all are in, and after every later step
			if f := w.Apply(o); f != "" {
				return fmt.Sprintf("%v: %s", o, f)
			}
			continue
		}
		if f := step(o); f != "" {
			return f
		}
	}
	if StoreKind(c.Kind) != Mem {
		if f := step(Op{K: 'F'}); f != "" {
			return f
		}
	}
	// remove the last, the first and (if any) a middle one
	for _, i := range []int{len(paths) - 1, 0, len(paths) / 2} {
		if _, live := w.Model[paths[i]]; live {
			if f := step(Op{K: 'D', P: paths[i]}); f != "" {
				return f
			}
		}
	}
	// the same children below a branch that ALSO carries a value (the common prefix is a path of its own; even
	// prefix lengths only): the value is added last, removed again (the branch goes back to being value-less or
	// is reduced), then the first child is removed
	if c.Pos%2 == 0 {
		w2 := NewWorld(StoreKind(c.Kind), version)
		defer w2.Close()
		prefix := paths[0][:c.Pos]
		all := append(append([]string{}, paths...), prefix)
		step2 := func(o Op) string {
			if f := w2.Apply(o); f != "" {
				return fmt.Sprintf("[value on the branch] %v: %s", o, f)
			}
			if f := w2.Observe(all); f != "" {
				return fmt.Sprintf("[value on the branch] after %v: %s", o, f)
			}
			if extra != nil {
				if f := extra(w2); f != "" {
					return fmt.Sprintf("[value on the branch] after %v: %s", o, f)
				}
			}
			return ""
		}
		for i, p := range paths {
			if f := w2.Apply(Op{K: 'I', P: p, V: fmt.Sprintf("v%d", i)}); f != "" {
				return fmt.Sprintf("[value on the branch] Insert(%q): %s", p, f)
			}
		}
		ops := []Op{{K: 'I', P: prefix, V: "bv"}}
		if StoreKind(c.Kind) != Mem {
			ops = append(ops, Op{K: 'F'})
		}
		// value removed with all children present; value back, first child removed (for a pair: a value and ONE child
		// are left), value removed again (the branch is reduced onto its remaining child), last child removed
		ops = append(ops, Op{K: 'D', P: prefix}, Op{K: 'I', P: prefix, V: "bv2"}, Op{K: 'D', P: paths[0]}, Op{K: 'D', P: prefix}, Op{K: 'D', P: paths[len(paths)-1]})
		for _, o := range ops {
			if f := step2(o); f != "" {
				return f
			}
		}
	}
	return ""
}

func widthSweep(rep *rt.Report, name string, kinds []StoreKind, version int64, extra extraOracle) {
	run := "width-sweep/" + name
	const hexs = "0123456789abcdef"
	if rp := rt.Replay; rp != nil {
		if rp.Run != run {
			return
		}
		c := widthCase{Pos: int(rp.Raw["pos"].(float64)), Syms: rp.Raw["symbols"].(string), Kind: int(rp.Raw["kind"].(float64))}
		f1, f2 := runWidthCase(c, version, extra), runWidthCase(c, version, extra)
		fmt.Printf("REPLAY %s %v\n", run, c)
		if f1 != f2 {
			rt.HarnessError("replay of %v is not deterministic: %q vs %q", c, f1, f2)
		}
		if f1 != "" {
			rep.Violate(fmt.Sprintf("[%s] %v => %s", run, c, f1), nil)
		}
		return
	}
	var cases []widthCase
	for pos := 0; pos < 4; pos++ {
		for _, k := range kinds {
			for i := 0; i < 16; i++ {
				for j := i + 1; j < 16; j++ {
					cases = append(cases, widthCase{pos, string([]byte{hexs[i], hexs[j]}), int(k)}, widthCase{pos, string([]byte{hexs[j], hexs[i]}), int(k)})
				}
				cases = append(cases, widthCase{pos, hexs[:i] + hexs[i+1:], int(k)})
			}
			cases = append(cases, widthCase{pos, hexs, int(k)}, widthCase{pos, "fedcba9876543210", int(k)}, widthCase{pos, "80c4a6e2917b3d5f", int(k)})
		}
	}
	var next int64
	var mu sync.Mutex
	reported := map[string]bool{}
	var wg sync.WaitGroup
	for i := 0; i < rt.Workers(); i++ {
		wg.Add(1)
		go func() {
			defer wg.Done()
			for {
				j := int(atomic.AddInt64(&next, 1)) - 1
				if j >= len(cases) {
					return
				}
				c := cases[j]
				if f := runWidthCase(c, version, extra); f != "" {
					key := fmt.Sprintf("%d/%d/%s", c.Pos, c.Kind, strings.SplitN(f, " ", 4)[0])
					mu.Lock()
					if !reported[key] {
						reported[key] = true
						rep.Violate(fmt.Sprintf("[%s] %v => %s", run, c, f), map[string]any{"run": run, "pos": c.Pos, "symbols": c.Syms, "kind": c.Kind})
					} else {
						rep.Add("violations_suppressed_duplicates", 1)
					}
					mu.Unlock()
				}
			}
		}()
	}
	wg.Wait()
	n := len(cases)
	rep.Add("states", n)
	rep.Add("transitions", 4*n)
	rep.Add("traces_validated_against_impl", 4*n)
	rep.Add("evaluations", 4*n)
	rep.Add("distinct_nontrivial", n)
	rep.Sub[run] = map[string]any{
		"rule":  fmt.Sprintf("4-character paths differing in ONE position (0..3): every ordered pair of the 16 symbols, every 15-subset, the full set in three insertion orders, on stores %v; judged after the last insert, after save+reopen (layered stores) and after each of three deletes", kinds),
		"cases": n,
	}
}

// ---- two-level width sweep: three 4-character paths [a]0[c]0, [a]0[d]0, [b]0[c]0 for EVERY ordered
// pair a != b of first-level symbols and EVERY ordered pair c != d of second-level symbols: every
// combination of two child slots at the upper branch with two child slots at the branch below it.
// Judged after the three inserts and after deleting the middle path (which lifts a branch).
func twoLevelSweep(rep *rt.Report, name string, kind StoreKind, version int64, extra extraOracle) {
	run := "two-level-sweep/" + name
	const hexs = "0123456789abcdef"
	mk := func(a, c byte) string { return string([]byte{a, '0', c, '0'}) }
	runCase := func(a, b, c, d byte) (fail string) {
		defer func() {
			if r := recover(); r != nil {
				fail = clip(fmt.Sprintf("panic: %v", r))
			}
		}()
		paths := []string{mk(a, c), mk(a, d), mk(b, c)}
		w := NewWorld(kind, version)
		defer w.Close()
		check := func(when string) string {
			if f := w.Observe(paths); f != "" {
				return when + ": " + f
			}
			if extra != nil {
				if f := extra(w); f != "" {
					return when + ": " + f
				}
			}
			return ""
		}
		for i, p := range paths {
			if f := w.Apply(Op{K: 'I', P: p, V: fmt.Sprintf("v%d", i)}); f != "" {
				return fmt.Sprintf("Insert(%q): %s", p, f)
			}
		}
		if f := check("after the three inserts"); f != "" {
			return f
		}
		if kind != Mem {
			if f := w.Apply(Op{K: 'F'}); f != "" {
				return f
			}
		}
		for _, p := range []string{paths[1], paths[2]} {
			if f := w.Apply(Op{K: 'D', P: p}); f != "" {
				return fmt.Sprintf("Delete(%q): %s", p, f)
			}
			if f := check(fmt.Sprintf("after Delete(%q)", p)); f != "" {
				return f
			}
		}
		return ""
	}
	if rp := rt.Replay; rp != nil {
		if rp.Run != run {
			return
		}
		s := rp.Raw["symbols"].(string)
		f1, f2 := runCase(s[0], s[1], s[2], s[3]), runCase(s[0], s[1], s[2], s[3])
		fmt.Printf("REPLAY %s a=%c b=%c c=%c d=%c\n", run, s[0], s[1], s[2], s[3])
		if f1 != f2 {
			rt.HarnessError("replay of %q is not deterministic: %q vs %q", s, f1, f2)
		}
		if f1 != "" {
			rep.Violate(fmt.Sprintf("[%s] paths %q %q %q => %s", run, mk(s[0], s[2]), mk(s[0], s[3]), mk(s[1], s[2]), f1), nil)
		}
		return
	}
	type tc struct{ a, b, c, d byte }
	var cases []tc
	for _, a := range []byte(hexs) {
		for _, b := range []byte(hexs) {
			if a == b {
				continue
			}
			for _, c := range []byte(hexs) {
				for _, d := range []byte(hexs) {
					if c != d {
						cases = append(cases, tc{a, b, c, d})
					}
				}
			}
		}
	}
	var next int64
	var mu sync.Mutex
	reported := 0
	var wg sync.WaitGroup
	for i := 0; i < rt.Workers(); i++ {
		wg.Add(1)
		go func() {
			defer wg.Done()
			for {
				j := int(atomic.AddInt64(&next, 1)) - 1
				if j >= len(cases) {
					return
				}
				c := cases[j]
				if f := runCase(c.a, c.b, c.c, c.d); f != "" {
					mu.Lock()
					if reported < 3 {
						reported++
						rep.Violate(fmt.Sprintf("[%s] paths %q %q %q => %s", run, mk(c.a, c.c), mk(c.a, c.d), mk(c.b, c.c), f), map[string]any{"run": run, "symbols": string([]byte{c.a, c.b, c.c, c.d})})
					} else {
						rep.Add("violations_suppressed_duplicates", 1)
					}
					mu.Unlock()
				}
			}
		}()
	}
	wg.Wait()
	n := len(cases)
	rep.Add("states", n)
	rep.Add("transitions", 3*n)
	rep.Add("traces_validated_against_impl", 3*n)
	rep.Add("evaluations", 3*n)
	rep.Add("distinct_nontrivial", n)
	rep.Sub[run] = map[string]any{"cases": n, "rule": fmt.Sprintf("paths [a]0[c]0, [a]0[d]0, [b]0[c]0 for every ordered pair a != b and every ordered pair c != d of the 16 symbols (store %v); judged after the inserts and after each of two deletes", kind)}
}

// ---- byte sweep: every byte value 0..255 as a one-byte value, as the first, a middle and the last
// byte of a longer value, on every node shape that carries a value.
func byteSweep(rep *rt.Report, name string, kinds []StoreKind, version int64, extra extraOracle) {
	run := "byte-sweep/" + name
	type bc struct {
		b     int
		form  int
		shape int
		kind  StoreKind
	}
	value := func(b, form int) string {
		switch form {
		case 0:
			return string([]byte{byte(b)})
		case 1:
			return string([]byte{byte(b), 'x', 'y', 'z'})
		case 2:
			return string([]byte{'x', 'y', byte(b), 'z', 'w'})
		default:
			return string([]byte{'x', 'y', 'z', byte(b)})
		}
	}
	runCase := func(c bc) (fail string) {
		defer func() {
			if r := recover(); r != nil {
				fail = clip(fmt.Sprintf("panic: %v", r))
			}
		}()
		sh := sizeShapes[c.shape]
		paths := append([]string{sh.big}, sh.rest...)
		w := NewWorld(c.kind, version)
		defer w.Close()
		ops := []Op{}
		for _, p := range sh.rest {
			ops = append(ops, Op{K: 'I', P: p, V: "x"})
		}
		ops = append(ops, Op{K: 'I', P: sh.big, V: value(c.b, c.form)})
		if c.kind != Mem {
			ops = append(ops, Op{K: 'F'})
		}
		for _, o := range ops {
			if f := w.Apply(o); f != "" {
				return fmt.Sprintf("%v: %s", o, f)
			}
		}
		if f := w.Observe(paths); f != "" {
			return f
		}
		if extra != nil {
			return extra(w)
		}
		return ""
	}
	if rp := rt.Replay; rp != nil {
		if rp.Run != run {
			return
		}
		c := bc{int(rp.Raw["byte"].(float64)), int(rp.Raw["form"].(float64)), int(rp.Raw["shape"].(float64)), StoreKind(int(rp.Raw["kind"].(float64)))}
		f1, f2 := runCase(c), runCase(c)
		fmt.Printf("REPLAY %s %+v\n", run, c)
		if f1 != f2 {
			rt.HarnessError("replay is not deterministic: %q vs %q", f1, f2)
		}
		if f1 != "" {
			rep.Violate(fmt.Sprintf("[%s] value %q on shape '%s', store %v => %s", run, value(c.b, c.form), sizeShapes[c.shape].name, c.kind, f1), nil)
		}
		return
	}
	var cases []bc
	for b := 0; b < 256; b++ {
		for form := 0; form < 4; form++ {
			for s := range sizeShapes {
				for _, k := range kinds {
					cases = append(cases, bc{b, form, s, k})
				}
			}
		}
	}
	var next int64
	var mu sync.Mutex
	reported := map[string]bool{}
	var wg sync.WaitGroup
	for i := 0; i < rt.Workers(); i++ {
		wg.Add(1)
		go func() {
			defer wg.Done()
			for {
				j := int(atomic.AddInt64(&next, 1)) - 1
				if j >= len(cases) {
					return
				}
				c := cases[j]
				if f := runCase(c); f != "" {
					key := fmt.Sprintf("%d/%d/%d/%s", c.form, c.shape, c.kind, strings.SplitN(f, " ", 3)[0])
					mu.Lock()
					if !reported[key] {
						reported[key] = true
						rep.Violate(fmt.Sprintf("[%s] value %q on shape '%s', store %v => %s", run, value(c.b, c.form), sizeShapes[c.shape].name, c.kind, f), map[string]any{"run": run, "byte": c.b, "form": c.form, "shape": c.shape, "kind": int(c.kind)})
					} else {
						rep.Add("violations_suppressed_duplicates", 1)
					}
					mu.Unlock()
				}
			}
		}()
	}
	wg.Wait()
	n := len(cases)
	rep.Add("states", n)
	rep.Add("transitions", n)
	rep.Add("traces_validated_against_impl", n)
	rep.Add("evaluations", n)
	rep.Add("distinct_nontrivial", n)
	rep.Sub[run] = map[string]any{"cases": n, "rule": fmt.Sprintf("every byte value 0..255 as a one-byte value and as first / middle / last byte of a longer value, on %d node shapes that carry a value, stores %v", len(sizeShapes), kinds)}
}

// ---- prefix-length sweep: two paths that share a prefix of EVERY length 0..40 and then differ, and a
// third path that leaves the shared prefix at every earlier position; both insertion orders; then deletes.
// (The BFS paths have at most 4 characters, the size-sweep paths share 62 or 129.)
func prefixSweep(rep *rt.Report, name string, kind StoreKind, version int64, extra extraOracle) {
	run := "prefix-sweep/" + name
	const common = "0123456789abcdef0123456789abcdef0123456789abcdef0123456789abcdef0123456789abcdef0123456789abcdef"
	even := func(p string) string {
		if len(p)%2 == 1 {
			return p + "0"
		}
		return p
	}
	type pc struct{ l, j, order int } // shared length, divergence position of the third path (-1 none), insertion order
	runCase := func(c pc) (fail string) {
		defer func() {
			if r := recover(); r != nil {
				fail = clip(fmt.Sprintf("panic: %v", r))
			}
		}()
		p1 := even(common[:c.l] + "a1")
		p2 := even(common[:c.l] + "b2")
		paths := []string{p1, p2}
		if c.j >= 0 {
			paths = append(paths, even(common[:c.j]+"c3"+common[c.j+2:c.l+2]))
		}
		ins := append([]string{}, paths...)
		switch c.order {
		case 1:
			ins[0], ins[1] = ins[1], ins[0]
		case 2:
			ins[0], ins[len(ins)-1] = ins[len(ins)-1], ins[0]
		}
		w := NewWorld(kind, version)
		defer w.Close()
		check := func(when string) string {
			if f := w.Observe(paths); f != "" {
				return when + ": " + f
			}
			if extra != nil {
				if f := extra(w); f != "" {
					return when + ": " + f
				}
			}
			return ""
		}
		for i, p := range ins {
			if f := w.Apply(Op{K: 'I', P: p, V: fmt.Sprintf("v%d", i)}); f != "" {
				return fmt.Sprintf("Insert(%q): %s", p, f)
			}
			if f := check(fmt.Sprintf("after Insert(%q)", p)); f != "" {
				return f
			}
		}
		if kind != Mem {
			if f := w.Apply(Op{K: 'F'}); f != "" {
				return f
			}
		}
		for _, p := range ins[:len(ins)-1] {
			if f := w.Apply(Op{K: 'D', P: p}); f != "" {
				return fmt.Sprintf("Delete(%q): %s", p, f)
			}
			if f := check(fmt.Sprintf("after Delete(%q)", p)); f != "" {
				return f
			}
		}
		return ""
	}
	if rp := rt.Replay; rp != nil {
		if rp.Run != run {
			return
		}
		c := pc{int(rp.Raw["shared"].(float64)), int(rp.Raw["third"].(float64)), int(rp.Raw["order"].(float64))}
		f1, f2 := runCase(c), runCase(c)
		fmt.Printf("REPLAY %s %+v\n", run, c)
		if f1 != f2 {
			rt.HarnessError("replay is not deterministic: %q vs %q", f1, f2)
		}
		if f1 != "" {
			rep.Violate(fmt.Sprintf("[%s] two paths sharing %d characters, third path leaving at %d, order %d => %s", run, c.l, c.j, c.order, f1), nil)
		}
		return
	}
	var cases []pc
	for l := 0; l <= 72; l++ {
		for order := 0; order < 3; order++ {
			cases = append(cases, pc{l, -1, order})
			for j := 0; j+2 <= l; j++ {
				cases = append(cases, pc{l, j, order})
			}
		}
	}
	var next int64
	var mu sync.Mutex
	reported := 0
	var wg sync.WaitGroup
	for i := 0; i < rt.Workers(); i++ {
		wg.Add(1)
		go func() {
			defer wg.Done()
			for {
				j := int(atomic.AddInt64(&next, 1)) - 1
				if j >= len(cases) {
					return
				}
				c := cases[j]
				if f := runCase(c); f != "" {
					mu.Lock()
					if reported < 3 {
						reported++
						rep.Violate(fmt.Sprintf("[%s] two paths sharing %d characters, third path leaving at %d, order %d => %s", run, c.l, c.j, c.order, f), map[string]any{"run": run, "shared": c.l, "third": c.j, "order": c.order})
					} else {
						rep.Add("violations_suppressed_duplicates", 1)
					}
					mu.Unlock()
				}
			}
		}()
	}
	wg.Wait()
	n := len(cases)
	rep.Add("states", n)
	rep.Add("transitions", 5*n)
	rep.Add("traces_validated_against_impl", 5*n)
	rep.Add("evaluations", 5*n)
	rep.Add("distinct_nontrivial", n)
	rep.Sub[run] = map[string]any{"cases": n, "rule": fmt.Sprintf("two paths sharing a prefix of every length 0..72 (total path lengths 2..74 characters), a third path leaving that prefix at every earlier position, three insertion orders, store %v; judged after every insert and every delete", kind)}
}
