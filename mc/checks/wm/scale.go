package wm

import (
	"bytes"
	"crypto/sha256"
	"fmt"

	"github.com/0chain/common/core/util/wmpt"

	"verifmc/dev"
	"verifmc/model"
	"verifmc/rt"
)

// ---- scale instances (engine E4): ONE large history per property, judged with the same oracles as the
// BFS states. The BFS works on six keys; batching, sharding and trimming inside the code under test start
// at hundreds or thousands of nodes per commit / per collection pass / per rollback.

func scaleKey(i int) []byte {
	h := sha256.Sum256([]byte(fmt.Sprintf("scale-%d", i)))
	return h[:]
}

// combKeys: n keys where key i shares exactly i nibbles with the target key (the last one): the target's path
// passes through n-1 branch nodes, one per nibble (the deepest shape a 32-byte key allows for n = 64).
func combKeys(n int) [][]byte {
	target := bytes.Repeat([]byte{0x5a}, 32)
	var out [][]byte
	for i := 0; i < n-1 && i < 64; i++ {
		k := append([]byte{}, target...)
		// change nibble i
		if i%2 == 0 {
			k[i/2] ^= 0x30
		} else {
			k[i/2] ^= 0x03
		}
		out = append(out, k)
	}
	return append(out, target)
}

type scaleTrie struct {
	s *dev.Store
	t *wmpt.WeightedMerkleTrie
	m *model.WModel
}

func newScaleTrie() *scaleTrie {
	s := dev.NewStore()
	return &scaleTrie{s: s, t: wmpt.New(nil, s), m: model.NewWModel()}
}

func (x *scaleTrie) put(k []byte, v string, w uint64) error {
	if err := x.t.Update(k, []byte(v), w); err != nil {
		return err
	}
	if v == "" {
		delete(x.m.M, string(k))
	} else {
		x.m.M[string(k)] = model.WEntry{Key: k, Value: []byte(v), Weight: w}
	}
	return nil
}

func (x *scaleTrie) commit(level int) error {
	b, err := x.t.Commit(level)
	if err != nil {
		return err
	}
	return b.Commit(false)
}

// sampled observation for big tries: weight, root, and owner+proof for a spread of blocks (all blocks when few).
func (x *scaleTrie) observe(t *wmpt.WeightedMerkleTrie, maxBlocks int) string {
	if got, want := t.Weight(), x.m.Total(); got != want {
		return fmt.Sprintf("Weight() = %d, sum of live weights = %d", got, want)
	}
	root := x.m.Root()
	if got := t.Root(); !bytes.Equal(got, root) {
		return fmt.Sprintf("Root() = %x, independent computation from the live set gives %x", got, root)
	}
	total := x.m.Total()
	step := uint64(1)
	if total > uint64(maxBlocks) {
		step = total / uint64(maxBlocks)
	}
	for b := uint64(1); b <= total; b += step {
		own, _ := x.m.Owner(b)
		key, proof, err := t.GetBlockProof(b)
		if err != nil {
			return fmt.Sprintf("GetBlockProof(%d) of %d: %v", b, total, err)
		}
		if !bytes.Equal(key, own.Key) {
			return fmt.Sprintf("GetBlockProof(%d) owner = %x, cumulative-weight owner in key order = %x", b, key, own.Key)
		}
		h, v, err := (&wmpt.WeightedMerkleTrie{}).VerifyBlockProof(b, proof)
		if err != nil || !bytes.Equal(h, root) || !bytes.Equal(v, own.Value) {
			return fmt.Sprintf("proof of block %d verifies to (%x, %q, %v), want root %x value %q", b, h, v, err, root, own.Value)
		}
	}
	return ""
}

func (x *scaleTrie) reopened() *wmpt.WeightedMerkleTrie {
	return Reopened(x.s, x.m.Root(), x.m.Total())
}

// scaleC09: a 700-key trie built, rewritten and thinned out over several commits at different collapse levels,
// and the deepest comb; weight/root/ownership/proofs after every stage, live and reloaded.
func scaleC09(rep *rt.Report, n int) {
	fail := func(stage, f string) {
		rep.Violate(fmt.Sprintf("[scale] %d-key history, %s: %s", n, stage, f), map[string]any{"run": "scale", "keys": n, "stage": stage})
	}
	rep.Add("states", 1)
	x := newScaleTrie()
	stage := func(name string, level int) bool {
		if err := x.commit(level); err != nil {
			fail(name, "Commit: "+err.Error())
			return false
		}
		rep.Add("transitions", 2)
		rep.Add("traces_validated_against_impl", 2)
		rep.Add("evaluations", 2)
		if f := x.observe(x.t, 400); f != "" {
			fail(name+" (live trie)", f)
			return false
		}
		if f := x.observe(x.reopened(), 400); f != "" {
			fail(name+" (reopened from root hash and weight)", f)
			return false
		}
		return true
	}
	for i := 0; i < n; i++ {
		if err := x.put(scaleKey(i), fmt.Sprintf("v1-%d", i), uint64(1+i%3)); err != nil {
			fail("build", err.Error())
			return
		}
	}
	if !stage("after building and Commit(0)", 0) {
		return
	}
	for i := 0; i < n; i++ {
		if err := x.put(scaleKey(i), fmt.Sprintf("v2-%d", i), uint64(1+(i+1)%4)); err != nil {
			fail("rewrite", err.Error())
			return
		}
	}
	if !stage("after rewriting every key and Commit(2)", 2) {
		return
	}
	for i := 0; i < n; i += 2 {
		if err := x.put(scaleKey(i), "", 0); err != nil {
			fail("thin out", err.Error())
			return
		}
	}
	if !stage("after deleting every second key and Commit(64)", 64) {
		return
	}
	// the deepest comb
	c := newScaleTrie()
	for i, k := range combKeys(65) {
		if err := c.put(k, fmt.Sprintf("comb-%d", i), uint64(1+i%2)); err != nil {
			fail("comb build", err.Error())
			return
		}
	}
	rep.Add("states", 1)
	{
		// observed on an instance of its own: reading proofs from a trie with uncommitted changes clears its
		// dirty flags (a following Commit would write nothing) -- known behaviour outside the properties (5.2)
		c2 := newScaleTrie()
		for i, k := range combKeys(65) {
			_ = c2.put(k, fmt.Sprintf("comb-%d", i), uint64(1+i%2))
		}
		if f := c2.observe(c2.t, 1000); f != "" {
			fail("comb of 65 keys sharing 0..63 nibbles with the last one (in memory)", f)
			return
		}
	}
	if err := c.commit(3); err != nil {
		fail("comb Commit(3)", err.Error())
		return
	}
	if f := c.observe(c.reopened(), 1000); f != "" {
		fail("comb of 65 keys, committed at level 3 and reopened", f)
	}
}

// scaleC11: many released nodes queued over written commits, then uncommitted changes and several collection
// passes: the last durably committed root must stay recoverable after every pass.
func scaleC11(rep *rt.Report, n int) {
	fail := func(stage, f string) {
		rep.Violate(fmt.Sprintf("[scale] %d-key history, %s: %s", n, stage, f), map[string]any{"run": "scale", "keys": n, "stage": stage})
	}
	rep.Add("states", 1)
	x := newScaleTrie()
	for round := 1; round <= 3; round++ {
		for i := 0; i < n; i++ {
			if err := x.put(scaleKey(i), fmt.Sprintf("r%d-%d", round, i), uint64(1+(i+round)%3)); err != nil {
				fail("build", err.Error())
				return
			}
		}
		if err := x.commit([]int{0, 1, 64}[round-1]); err != nil {
			fail("commit", err.Error())
			return
		}
		rep.Add("transitions", 1)
		rep.Add("traces_validated_against_impl", 1)
		rep.Add("evaluations", 1)
		if f := x.observe(x.reopened(), 300); f != "" {
			fail(fmt.Sprintf("after written commit %d (no collection yet), reopened", round), f)
			return
		}
	}
	durable := x.m.Clone()
	dRoot, dWeight := durable.Root(), durable.Total()
	// uncommitted changes on top
	for i := 0; i < 21; i++ {
		v := fmt.Sprintf("pending-%d", i)
		if i%3 == 0 {
			v = ""
		}
		if err := x.put(scaleKey(i*7), v, 5); err != nil {
			fail("uncommitted changes", err.Error())
			return
		}
	}
	dx := &scaleTrie{s: x.s, m: durable}
	for pass := 1; pass <= 6; pass++ {
		if err := x.t.DeleteNodes(); err != nil {
			fail("DeleteNodes", err.Error())
			return
		}
		rep.Add("transitions", 1)
		rep.Add("traces_validated_against_impl", 1)
		rep.Add("evaluations", 1)
		if f := dx.observe(Reopened(x.s, dRoot, dWeight), 300); f != "" {
			fail(fmt.Sprintf("3 written commits rewriting all keys, 21 uncommitted changes, collection pass %d: the last durably committed root reopened", pass), f)
			return
		}
	}
	if err := x.commit(0); err != nil {
		fail("final commit", err.Error())
		return
	}
	for pass := 1; pass <= 3; pass++ {
		if err := x.t.DeleteNodes(); err != nil {
			fail("DeleteNodes", err.Error())
			return
		}
		if f := x.observe(x.reopened(), 300); f != "" {
			fail(fmt.Sprintf("final commit, collection pass %d, reopened", pass), f)
			return
		}
	}
}

// scaleC13: a checkpoint, a LARGE commit on top (hundreds of new keys, rewritten and deleted ones), rollback
// through every entry point: root and weight of the checkpoint, everything of the checkpoint resolvable, and
// storage holding exactly the keys it held at the checkpoint.
func scaleC13(rep *rt.Report, base int, added []int) {
	for _, add := range added {
		for _, via := range []string{"Rollback", "RollbackTrie(hash node)", "RollbackTrie(CopyRoot snapshot)"} {
			rep.Add("states", 1)
			rep.Add("transitions", 1)
			rep.Add("traces_validated_against_impl", 1)
			rep.Add("evaluations", 1)
			desc := fmt.Sprintf("[scale] checkpoint of %d keys, a commit adding %d keys (rewriting 40, deleting 20), %s", base, add, via)
			fail := func(f string) {
				rep.Violate(desc+": "+f, map[string]any{"run": "scale", "base": base, "added": add, "via": via})
			}
			x := newScaleTrie()
			for i := 0; i < base; i++ {
				if err := x.put(scaleKey(i), fmt.Sprintf("base-%d", i), uint64(1+i%3)); err != nil {
					fail(err.Error())
					return
				}
			}
			if err := x.commit(0); err != nil {
				fail(err.Error())
				return
			}
			chk := x.m.Clone()
			snap := x.t.CopyRoot(64)
			x.t.SaveRoot()
			before := map[string]bool{}
			for _, k := range x.s.Keys() {
				before[k] = true
			}
			for i := 0; i < add; i++ {
				_ = x.put(scaleKey(base+i), fmt.Sprintf("new-%d", i), uint64(1+i%4))
			}
			for i := 0; i < 40 && i < base; i++ {
				_ = x.put(scaleKey(i), fmt.Sprintf("rewritten-%d", i), 7)
			}
			for i := 40; i < 60 && i < base; i++ {
				_ = x.put(scaleKey(i), "", 0)
			}
			if err := x.commit(1); err != nil {
				fail(err.Error())
				return
			}
			switch via {
			case "Rollback":
				x.t.Rollback()
			case "RollbackTrie(hash node)":
				x.t.RollbackTrie(wmpt.NewHashNode(chk.Root(), chk.Total()))
			default:
				x.t.RollbackTrie(snap)
			}
			x.m = chk
			if f := x.observe(x.t, 200); f != "" {
				fail("the live trie after the rollback: " + f)
				continue
			}
			if f := x.observe(x.reopened(), 200); f != "" {
				fail("the checkpoint reopened from storage after the rollback: " + f)
				continue
			}
			var extra, lost int
			after := map[string]bool{}
			for _, k := range x.s.Keys() {
				after[k] = true
				if !before[k] {
					extra++
				}
			}
			for k := range before {
				if !after[k] {
					lost++
				}
			}
			if extra != 0 || lost != 0 {
				fail(fmt.Sprintf("storage holds %d keys that only the rolled-back commit created and lacks %d keys it held at the checkpoint", extra, lost))
			}
		}
	}
}

// combProofs (C10): the deepest comb, in memory and committed+reopened: every block's honest proof verifies.
func combProofs(rep *rt.Report) {
	for _, n := range []int{9, 33, 64, 65} {
		for _, level := range []int{-1, 0, 3} {
			rep.Add("honest_comb_cases", 1)
			c := newScaleTrie()
			for i, k := range combKeys(n) {
				_ = c.put(k, fmt.Sprintf("comb-%d", i), uint64(1+i%2))
			}
			t := c.t
			if level >= 0 {
				if err := c.commit(level); err != nil {
					rep.Violate(fmt.Sprintf("[comb] %d keys: Commit(%d): %v", n, level, err), map[string]any{"run": "comb", "keys": n})
					return
				}
				t = c.reopened()
			}
			if f := c.observe(t, 1<<20); f != "" {
				rep.Violate(fmt.Sprintf("[comb] %d keys sharing 0..%d nibbles with the last one, storage level %d: %s", n, n-2, level, f), map[string]any{"run": "comb", "keys": n, "level": level})
				return
			}
		}
	}
}

// combExports (C12): exports of the paths to the deepest key, to every key, and to no key of the comb, rebuilt
// and followed through an update and a delete of the deepest key.
func combExports(violate func(key, msg string, replay map[string]any)) int {
	cases := 0
	for _, n := range []int{13, 32, 33, 41, 64, 65} {
		for _, level := range []int{-1, 1} {
			keys := combKeys(n)
			for reqName, req := range map[string][][]byte{"the deepest key": {keys[n-1]}, "every key": keys, "the first and the deepest key": {keys[0], keys[n-1]}} {
				cases++
				desc := fmt.Sprintf("[comb] %d keys sharing 0..%d nibbles with the last one, storage level %d, requested %s", n, n-2, level, reqName)
				replay := map[string]any{"run": "comb", "keys": n, "level": level, "requested": reqName}
				c := newScaleTrie()
				for i, k := range keys {
					_ = c.put(k, fmt.Sprintf("comb-%d", i), uint64(1+i%2))
				}
				if level >= 0 {
					if err := c.commit(level); err != nil {
						violate("comb-commit", desc+": Commit: "+err.Error(), replay)
						continue
					}
				}
				export, err := c.t.GetPath(req)
				if err != nil {
					violate("comb-getpath", desc+": GetPath: "+err.Error(), replay)
					continue
				}
				part := wmpt.New(nil, nil)
				if err := part.Deserialize(export); err != nil {
					violate("comb-deserialize", desc+": Deserialize of the export failed: "+err.Error(), replay)
					continue
				}
				same := func(when string) bool {
					if !bytes.Equal(c.t.Root(), part.Root()) || c.t.Weight() != part.Weight() || !bytes.Equal(c.t.Root(), c.m.Root()) {
						violate("comb-diverge", fmt.Sprintf("%s: %s partial trie has root %x weight %d, source root %x weight %d, model root %x", desc, when, part.Root(), part.Weight(), c.t.Root(), c.t.Weight(), c.m.Root()), replay)
						return false
					}
					return true
				}
				if !same("right after the export") {
					continue
				}
				deep := keys[n-1]
				if e1, e2 := c.put(deep, "updated", 9), part.Update(deep, []byte("updated"), 9); e1 != nil || e2 != nil {
					violate("comb-op", fmt.Sprintf("%s: update of the deepest key: source %v, partial %v", desc, e1, e2), replay)
					continue
				}
				if !same("after an update of the deepest key") {
					continue
				}
				if e1, e2 := c.put(deep, "", 0), part.Update(deep, nil, 0); e1 != nil || e2 != nil {
					violate("comb-op", fmt.Sprintf("%s: delete of the deepest key: source %v, partial %v", desc, e1, e2), replay)
					continue
				}
				same("after a delete of the deepest key")
			}
		}
	}
	return cases
}

// scriptedRollbacks (C13): rollback targets taken at different moments. Checkpoint A; changes; commit; Rollback()
// (back at A); a snapshot of A taken right then (CopyRoot at several levels, or the root node itself); further
// changes, commit, a SECOND checkpoint B, changes, commit; RollbackTrie(snapshot of A): the trie is at A again -
// root, weight, every block - and A is resolvable from storage. (The BFS worlds use one checkpoint per history.)
func scriptedRollbacks(rep *rt.Report) {
	for _, nkeys := range []int{1, 3, 8} {
		for _, level := range []int{0, 1, 3, 64} {
			for _, src := range []string{"CopyRoot", "GetRoot"} {
				for _, clevel := range []int{0, 1} {
					rep.Add("states", 1)
					rep.Add("transitions", 1)
					rep.Add("traces_validated_against_impl", 1)
					rep.Add("evaluations", 1)
					desc := fmt.Sprintf("[scripted-rollback] %d keys, commits at level %d: checkpoint A, commit, Rollback(), snapshot by %s(%d), commit, checkpoint B, commit, RollbackTrie(snapshot)", nkeys, clevel, src, level)
					fail := func(f string) {
						rep.Violate(desc+": "+f, map[string]any{"run": "scripted-rollback", "keys": nkeys, "level": level, "source": src, "commit_level": clevel})
					}
					func() {
						defer func() {
							if r := recover(); r != nil {
								fail(fmt.Sprintf("panic: %v", r))
							}
						}()
						x := newScaleTrie()
						for i := 0; i < nkeys; i++ {
							_ = x.put(scaleKey(i), fmt.Sprintf("A-%d", i), uint64(1+i%3))
						}
						if err := x.commit(clevel); err != nil {
							fail(err.Error())
							return
						}
						modelA := x.m.Clone()
						x.t.SaveRoot() // checkpoint A
						_ = x.put(scaleKey(0), "changed-1", 5)
						_ = x.put(scaleKey(100), "new-1", 2)
						if err := x.commit(clevel); err != nil {
							fail(err.Error())
							return
						}
						x.t.Rollback()
						x.m = modelA.Clone()
						if f := x.observe(x.t, 100); f != "" {
							fail("after Rollback(): " + f)
							return
						}
						var snap wmpt.Node
						if src == "CopyRoot" {
							snap = x.t.CopyRoot(level)
						} else {
							snap = x.t.GetRoot()
						}
						_ = x.put(scaleKey(0), "changed-2", 4)
						_ = x.put(scaleKey(101), "new-2", 3)
						if err := x.commit(clevel); err != nil {
							fail(err.Error())
							return
						}
						x.t.SaveRoot() // checkpoint B
						_ = x.put(scaleKey(102), "new-3", 1)
						if err := x.commit(clevel); err != nil {
							fail(err.Error())
							return
						}
						x.t.RollbackTrie(snap)
						x.m = modelA.Clone()
						if f := x.observe(x.t, 100); f != "" {
							fail("after RollbackTrie(snapshot of A) the live trie: " + f)
							return
						}
					}()
				}
			}
		}
	}
}
