package lg

import (
	"errors"
	"fmt"
	"net/http"
	"net/http/httptest"
	"os"
	"path/filepath"
	"strconv"
	"strings"

	"github.com/0chain/common/core/logging"
	"go.uber.org/zap"

	"verifmc/rt"
)

// ---- the HTTP read path of the buffers (core/logging/handler.go): the pages served by LogWriter,
// N2NLogWriter and MemLogWriter must show, newest first, exactly the most recent entries of THEIR buffer
// - on the first request, on a repeated request, and on the request after one whose client went away
// (its ResponseWriter returned an error).

type brokenWriter struct{ h http.Header }

func (b *brokenWriter) Header() http.Header        { return b.h }
func (b *brokenWriter) Write([]byte) (int, error)  { return 0, errors.New("client went away") }
func (b *brokenWriter) WriteHeader(statusCode int) {}

func pageMessages(body string) []string {
	var msgs []string
	for _, l := range strings.Split(body, "\n") {
		if l == "" {
			continue
		}
		f := strings.Split(l, "\t")
		msgs = append(msgs, f[len(f)-1])
	}
	return msgs
}

// HandlerPart runs the handler scenarios; it installs real loggers (InitLogging) and puts the no-op logger back.
func HandlerPart(rep *rt.Report) {
	dir, err := os.MkdirTemp("", "c20-handlers-")
	if err != nil {
		rep.Set("handler_scenarios", "skipped: "+err.Error())
		return
	}
	defer os.RemoveAll(dir)
	defer func() { logging.Logger = zap.NewNop() }()
	n := 0
	type hcase struct {
		total  int
		broken bool // the log FILES cannot be written (<workdir>/log is a regular file): the in-memory log must not depend on them
	}
	cases := []hcase{}
	for _, total := range []int{0, 1, 5, logging.BufferSize - 1, logging.BufferSize, logging.BufferSize + 300} {
		cases = append(cases, hcase{total, false})
	}
	cases = append(cases, hcase{5, true}, hcase{logging.BufferSize + 3, true})
	brokenDir := filepath.Join(dir, "broken-sink")
	if err := os.MkdirAll(brokenDir, 0o755); err == nil {
		_ = os.WriteFile(filepath.Join(brokenDir, "log"), []byte("not a directory"), 0o644)
	}
	for _, hc := range cases {
		total, dir := hc.total, dir
		if hc.broken {
			dir = brokenDir
		}
		fail := func() (fail string) {
			if hc.broken {
				// zap reports every failed file write on the process's stderr: silenced for this case
				if null, err := os.OpenFile(os.DevNull, os.O_WRONLY, 0); err == nil {
					saved := os.Stderr
					os.Stderr = null
					defer func() { os.Stderr = saved; null.Close() }()
				}
			}
			defer func() {
				if r := recover(); r != nil {
					fail = fmt.Sprintf("panic: %v", r)
				}
			}()
			logging.InitLogging("development", dir)
			derived := logging.Logger.With(zap.Int("derived", 1))
			twice := derived.With(zap.String("again", "x"))
			var main, n2n []string
			for i := 1; i <= total; i++ {
				m := "m" + strconv.Itoa(i)
				switch i % 3 {
				case 0:
					logging.Logger.Info(m)
				case 1:
					derived.Info(m)
				default:
					twice.Info(m)
				}
				main = append(main, m)
				if i%4 == 0 {
					logging.N2n.Info("n" + strconv.Itoa(i))
					n2n = append(n2n, "n"+strconv.Itoa(i))
				}
			}
			expect := func(all []string) []string {
				k := len(all)
				if k > logging.BufferSize {
					k = logging.BufferSize
				}
				var out []string
				for i := 0; i < k; i++ {
					out = append(out, all[len(all)-1-i])
				}
				return out
			}
			req := httptest.NewRequest("GET", "/_logs?detail=0", nil)
			page := func(h http.HandlerFunc) []string {
				rec := httptest.NewRecorder()
				h(rec, req)
				return pageMessages(rec.Body.String())
			}
			check := func(when string, h http.HandlerFunc, want []string, name string) string {
				got := page(h)
				if len(got) != len(want) {
					return fmt.Sprintf("%s: the %s page shows %d entries, the %d most recent of %d written are expected; head %v", when, name, len(got), len(want), total, head(got))
				}
				for i := range want {
					if got[i] != want[i] {
						return fmt.Sprintf("%s: line %d of the %s page is entry %s, want %s; head %v", when, i, name, got[i], want[i], head(got))
					}
				}
				return ""
			}
			for _, when := range []string{"first request", "second request"} {
				if f := check(when, logging.LogWriter, expect(main), "main log"); f != "" {
					return f
				}
				if f := check(when, logging.N2NLogWriter, expect(n2n), "node-to-node log"); f != "" {
					return f
				}
			}
			// a client that goes away
			logging.LogWriter(&brokenWriter{h: http.Header{}}, req)
			for _, h := range []struct {
				f    http.HandlerFunc
				want []string
				name string
			}{{logging.N2NLogWriter, expect(n2n), "node-to-node log"}, {logging.LogWriter, expect(main), "main log"}, {logging.MemLogWriter, nil, "memory-usage log"}, {logging.LogWriter, expect(main), "main log"}} {
				if f := check("request after one whose client went away", h.f, h.want, h.name); f != "" {
					return f
				}
			}
			return ""
		}()
		n++
		if fail != "" {
			sink := ""
			if hc.broken {
				sink = " (the log files cannot be written)"
			}
			rep.Violate(fmt.Sprintf("[handlers] %d entries written through the root logger and loggers derived once and twice%s: %s", total, sink, fail), map[string]any{"run": "handlers", "total": total, "broken_sink": hc.broken})
			break
		}
	}
	rep.Set("handler_scenarios", n)
	rep.Add("states", n)
	rep.Add("transitions", 12*n)
	rep.Add("traces_validated_against_impl", 12*n)
	rep.Add("evaluations", 12*n)
}
