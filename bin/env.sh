# sourced by every script: offline Go environment
export GOFLAGS=-mod=mod GOPROXY=off GOSUMDB=off GOTOOLCHAIN=local CGO_ENABLED=0
export VERIF_ROOT="${VERIF_ROOT:-$(cd "$(dirname "${BASH_SOURCE[0]}")/.." && pwd)}"
