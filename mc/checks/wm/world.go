// Package wm holds the weighted-trie harnesses (C09-C13).
package wm

import (
	"bytes"
	"errors"
	"fmt"
	"sort"
	"strings"

	"github.com/0chain/common/core/logging"
	"github.com/0chain/common/core/util/wmpt"
	"go.uber.org/zap"

	"verifmc/dev"
	"verifmc/model"
)

func init() { logging.Logger = zap.NewNop() }

// Keys: 32-byte keys sharing prefixes of 63, 3, 2, 1 and 0 nibbles with key 0.
var Keys = func() [][]byte {
	mk := func(nibbles string) []byte {
		full := nibbles + strings.Repeat("0", 64-len(nibbles))
		k := make([]byte, 32)
		for i := 0; i < 32; i++ {
			k[i] = hexv(full[2*i])<<4 | hexv(full[2*i+1])
		}
		return k
	}
	k1 := mk("")
	k1[31] = 0x01
	return [][]byte{mk(""), k1, mk("0001"), mk("001"), mk("01"), mk("1")}
}()

// moreKeys (indices 6..): keys "02..", "03..", "0f.." - together with key 4 ("01..") and the subtree of keys 0..3
// they hang under ONE branch below the root's child 0: a non-root branch with up to five children.
var moreKeys = func() [][]byte {
	var out [][]byte
	for _, b := range []byte{0x02, 0x03, 0x0f} {
		k := make([]byte, 32)
		k[0] = b
		out = append(out, k)
	}
	return out
}()

func keyAt(i int) []byte {
	if i < len(Keys) {
		return Keys[i]
	}
	return moreKeys[i-len(Keys)]
}

func hexv(c byte) byte {
	if c >= 'a' {
		return c - 'a' + 10
	}
	return c - '0'
}

// Weight is determined by the value (its first byte).
func Weight(v string) uint64 {
	switch {
	case len(v) == 0:
		return 0
	case v[0] == 'a', v[0] == 'c': // two different values of equal weight
		return 1
	case v[0] == 'z': // a live entry of weight 0 (owns no block); used by the content lists of C10 and C12 only
		return 0
	default:
		return 3
	}
}

// Shared selects the value alphabet: false = every value embeds its key's index, so
// two different keys never store equal values (no stored node is shared between live
// positions); true = the same values are used for all keys.
type Shared bool

func (s Shared) value(class string, key int) string {
	if len(class) == 1 && class[0] >= 'A' && class[0] <= 'Z' {
		// an upper-case class is the lower-case value WITHOUT the key's index: the same content under every key
		// that uses it (used by single contents of C12; the alphabets keep values distinct per key)
		return Shared(true).value(strings.ToLower(class), key)
	}
	v := class
	if !s {
		v = fmt.Sprintf("%s%d", class, key)
	}
	if class == "b" {
		// the heavy class is also long: longer than a hash (32), than hash+weight (40), than 64 and than 128 bytes
		v += "-0123456789abcdef0123456789abcdef0123456789abcdef" + strings.Repeat("0123456789abcdef", 6)
	}
	return v
}

type Op struct {
	K     byte // U update, X delete, C commit(level)+batch commit, G DeleteNodes, L reload, R Root(), P SaveRoot, B Rollback, T RollbackTrie, Y snapshot (CopyRoot), V/W update/delete through the snapshot
	Key   int
	Val   string
	Level int
}

func (o Op) String() string {
	switch o.K {
	case 'U':
		return fmt.Sprintf("Update(k%d,%s*,w=%d)", o.Key, o.Val, Weight(o.Val))
	case 'X':
		return fmt.Sprintf("Update(k%d,nil) [delete]", o.Key)
	case 'C':
		return fmt.Sprintf("Commit(%d)+batch.Commit", o.Level)
	case 'G':
		return "DeleteNodes"
	case 'L':
		return "reload from (root,weight)"
	case 'R':
		return "Root()"
	case 'P':
		return "SaveRoot [checkpoint]"
	case 'B':
		return "Rollback"
	case 'T':
		return "RollbackTrie(checkpoint node)"
	case 'Q':
		return "RollbackTrie(CopyRoot snapshot taken at the checkpoint)"
	case 'p':
		return "GetBlockProof(1) on the live trie"
	case 'g':
		return "DeleteNodes while the storage write fails"
	case 'u':
		return fmt.Sprintf("Update(k%d,%s*,w=%d) while the first storage read fails", o.Key, o.Val, Weight(o.Val))
	case 'x':
		return fmt.Sprintf("Update(k%d,nil) [delete] while the first storage read fails", o.Key)
	case 'Y':
		return fmt.Sprintf("snapshot = New(CopyRoot(%d))", o.Level)
	case 'V':
		return fmt.Sprintf("snapshot.Update(k%d,%s*,w=%d)", o.Key, o.Val, Weight(o.Val))
	case 'W':
		return fmt.Sprintf("snapshot.Update(k%d,nil) [delete]", o.Key)
	}
	return "?"
}

type commitPoint struct {
	logLen int // from this log length on, this is the durably committed state
	madeAt int // log length right after the commit that wrote this state
	root   []byte
	weight uint64
	m      *model.WModel
}

type World struct {
	Shared     Shared
	S          *dev.Store
	T          *wmpt.WeightedMerkleTrie
	M          *model.WModel
	Commits    []commitPoint
	Pending    bool            // model changed since the last durable commit
	GCPending  int             // DeleteNodes passes since the first mutation after the last commit
	EverShared map[string]bool // values that two live keys held at the same time at some point
	// checkpoint (C13)
	Chk        *commitPoint
	ChkSnap    wmpt.Node // an in-memory snapshot (CopyRoot) taken together with the checkpoint
	ChkKeys    []string  // storage keys present when the checkpoint was taken
	SinceChk   int       // commits since the checkpoint
	RolledBack bool
	// context of the last failed recovery check (for attributing it to a known finding)
	FailCP    *commitPoint
	FailStore *dev.Store
	// a snapshot taken with CopyRoot: a trie of its own from then on
	Snap  *wmpt.WeightedMerkleTrie
	SnapM *model.WModel
	// Alt: updates and deletes go through the other exported mutators, Put and Delete
	Alt bool
	// Unjudged: the history left what the properties define (see Apply, faulted delete)
	Unjudged bool
	// PendingViaFault: a read-fault operation that met nothing to read was applied as the plain operation, so
	// there are uncommitted changes the history-based Enabled functions do not know of
	PendingViaFault bool
	// Faults counts the operations that ran into an injected storage error. On the unchanged code such an
	// operation changes nothing, so the dumped state would merge "after a failed operation" with "before it";
	// whatever a CHANGED implementation remembers of a failed operation is not in the dump. The count is part
	// of the state key so that histories continue after a fault.
	Faults int
	// Reads: proofs read from the live trie so far (capped): a read changes nothing the dump shows, but a
	// changed implementation may cache what it decoded; histories with and without reads are kept apart
	Reads int
	// one hash-node OBJECT per (root, weight), handed to every trie that is opened on that root: reloads,
	// rollback targets and the reopened tries of the oracles (a hash node is immutable; tries share them freely)
	nodes map[string]wmpt.Node
}

func NewWorld(sh Shared) *World {
	s := dev.NewStore()
	return &World{Shared: sh, S: s, T: wmpt.New(nil, s), M: model.NewWModel()}
}

// sharedNode returns the one hash-node object this world uses for (root, weight).
func (w *World) sharedNode(root []byte, weight uint64) wmpt.Node {
	if weight == 0 {
		return nil
	}
	k := fmt.Sprintf("%x/%d", root, weight)
	if w.nodes == nil {
		w.nodes = map[string]wmpt.Node{}
	}
	n, ok := w.nodes[k]
	if !ok {
		n = wmpt.NewHashNode(root, weight)
		w.nodes[k] = n
	}
	return n
}

// reopenShared opens a trie on the world's storage at a commit point, through the shared hash-node object.
func (w *World) reopenShared(c commitPoint) *wmpt.WeightedMerkleTrie {
	return wmpt.New(w.sharedNode(c.root, c.weight), w.S)
}

func (w *World) lastCommit() *commitPoint {
	if len(w.Commits) == 0 {
		return nil
	}
	return &w.Commits[len(w.Commits)-1]
}

// Apply runs op on trie and model and judges the operation's own result.
func (w *World) Apply(o Op) (fail string) {
	defer func() {
		if r := recover(); r != nil {
			fail = fmt.Sprintf("panic: %v", r)
		}
	}()
	if o.K == 'u' || o.K == 'x' {
		// the same operation with a storage read error injected: an operation that REPORTS an error has not
		// happened (the model stays as it is) and the trie goes on answering as before; one that does not
		// run into the fault (nothing to read) is the plain operation
		w.S.ArmGetFault(0)
		var err error
		if o.K == 'u' {
			v := w.Shared.value(o.Val, o.Key)
			err = w.T.Update(keyAt(o.Key), []byte(v), Weight(v))
		} else {
			err = w.T.Update(keyAt(o.Key), nil, 0)
		}
		hit := w.S.GetFaultHit
		w.S.ArmGetFault(-1)
		if hit {
			w.Faults++
		}
		if hit && err != nil && o.K == 'x' {
			// A delete that fails on a read AFTER it has detached the key (the branch it leaves must be reduced,
			// which needs the remaining child loaded) reports the error with the key already gone and the branch
			// unreduced. No property quantifies over storage errors during deletes; from here on this history is
			// not judged (observation recorded in DESIGN 8.2).
			w.Unjudged = true
			return ""
		}
		if !hit || err == nil {
			// not affected by the fault (or it was absorbed): judge as the plain operation would be
			_, live := w.M.M[string(keyAt(o.Key))]
			switch {
			case o.K == 'u' && err != nil:
				return fmt.Sprintf("update returned %v", err)
			case o.K == 'u':
				v := w.Shared.value(o.Val, o.Key)
				w.M.M[string(keyAt(o.Key))] = model.WEntry{Key: keyAt(o.Key), Value: []byte(v), Weight: Weight(v)}
				w.Pending = true
				w.PendingViaFault = true
			case live && err != nil:
				return fmt.Sprintf("delete of live key returned %v", err)
			case live:
				delete(w.M.M, string(keyAt(o.Key)))
				w.Pending = true
				w.PendingViaFault = true
			case !errors.Is(err, wmpt.ErrNotFound):
				return fmt.Sprintf("delete of absent key returned %v, want ErrNotFound", err)
			}
		}
		return ""
	}
	switch o.K {
	case 'L', 'P', 'B', 'T', 'Q', 'Y':
		// these are only in the alphabet when nothing is uncommitted; Enabled decides that from the history and
		// cannot know whether a read-fault operation was applied as the plain one (with state merging such a
		// state is reached through the plain operation first and never gets here; without it, it does)
		if w.PendingViaFault {
			w.Unjudged = true
			return ""
		}
	}
	switch o.K {
	case 'U':
		v := w.Shared.value(o.Val, o.Key)
		if w.Alt {
			if err := w.T.Put(keyAt(o.Key), []byte(v), Weight(v)); err != nil {
				return fmt.Sprintf("Put returned %v", err)
			}
		} else if err := w.T.Update(keyAt(o.Key), []byte(v), Weight(v)); err != nil {
			return fmt.Sprintf("update returned %v", err)
		}
		w.M.M[string(keyAt(o.Key))] = model.WEntry{Key: keyAt(o.Key), Value: []byte(v), Weight: Weight(v)}
		w.Pending = true
		n := 0
		for _, e := range w.M.M {
			if string(e.Value) == v {
				n++
			}
		}
		if n >= 2 {
			if w.EverShared == nil {
				w.EverShared = map[string]bool{}
			}
			w.EverShared[v] = true
		}
	case 'X':
		var err error
		if w.Alt {
			var freed uint64
			freed, err = w.T.Delete(keyAt(o.Key))
			if e, ok := w.M.M[string(keyAt(o.Key))]; ok && err == nil && freed != e.Weight {
				return fmt.Sprintf("Delete reports %d released, the key's weight was %d", freed, e.Weight)
			}
		} else {
			err = w.T.Update(keyAt(o.Key), nil, 0)
		}
		if _, ok := w.M.M[string(keyAt(o.Key))]; ok {
			if err != nil {
				return fmt.Sprintf("delete of live key returned %v", err)
			}
			delete(w.M.M, string(keyAt(o.Key)))
			w.Pending = true
		} else if !errors.Is(err, wmpt.ErrNotFound) {
			return fmt.Sprintf("delete of absent key returned %v, want ErrNotFound", err)
		}
	case 'C':
		b, err := w.T.Commit(o.Level)
		if err != nil {
			return fmt.Sprintf("Commit(%d): %v", o.Level, err)
		}
		if err := b.Commit(false); err != nil {
			return fmt.Sprintf("batch.Commit: %v", err)
		}
		w.Commits = append(w.Commits, commitPoint{logLen: w.S.Len(), madeAt: w.S.Len(), root: w.M.Root(), weight: w.M.Total(), m: w.M.Clone()})
		if w.Pending {
			w.SinceChk++ // a commit with nothing to commit (a retried or periodic one) is not "the" commit after the checkpoint
		}
		w.Pending = false
		w.PendingViaFault = false
		w.GCPending = 0
	case 'G':
		if err := w.T.DeleteNodes(); err != nil {
			return fmt.Sprintf("DeleteNodes: %v", err)
		}
		if w.Pending {
			w.GCPending++
		}
	case 'L':
		c := w.lastCommit()
		if c == nil || c.weight == 0 {
			w.T = wmpt.New(nil, w.S)
		} else {
			w.T = wmpt.New(w.sharedNode(c.root, c.weight), w.S)
		}
	case 'p':
		if w.Reads < 2 {
			w.Reads++
		}
		if w.M.Total() > 0 {
			own, _ := w.M.Owner(1)
			key, proof, err := w.T.GetBlockProof(1)
			if err != nil || !bytes.Equal(key, own.Key) {
				return fmt.Sprintf("GetBlockProof(1) = key %x, %v; owner %x", key, err, own.Key)
			}
			h, v, err := (&wmpt.WeightedMerkleTrie{}).VerifyBlockProof(1, proof)
			if err != nil || !bytes.Equal(h, w.M.Root()) || !bytes.Equal(v, own.Value) {
				return fmt.Sprintf("proof of block 1 verifies to (%x, %q, %v), want root %x value %q", h, v, err, w.M.Root(), own.Value)
			}
		}
	case 'g':
		w.S.FailAt = w.S.Len() // the next storage write is rejected
		err := w.T.DeleteNodes()
		w.S.FailAt = -1
		if err != nil {
			w.Faults++
		}
		if err == nil && w.Pending {
			w.GCPending++ // nothing had to be written: an ordinary pass
		}
	case 'R':
		if got, want := w.T.Root(), w.M.Root(); !bytes.Equal(got, want) {
			return fmt.Sprintf("Root() = %x, independent computation from the live set gives %x", got, want)
		}
	case 'Y':
		w.Snap = wmpt.New(w.T.CopyRoot(o.Level), w.S)
		w.SnapM = w.M.Clone()
	case 'V':
		v := w.Shared.value(o.Val, o.Key)
		if err := w.Snap.Update(keyAt(o.Key), []byte(v), Weight(v)); err != nil {
			return fmt.Sprintf("update through the snapshot returned %v", err)
		}
		w.SnapM.M[string(keyAt(o.Key))] = model.WEntry{Key: keyAt(o.Key), Value: []byte(v), Weight: Weight(v)}
	case 'W':
		err := w.Snap.Update(keyAt(o.Key), nil, 0)
		if _, ok := w.SnapM.M[string(keyAt(o.Key))]; ok {
			if err != nil {
				return fmt.Sprintf("delete of a live key through the snapshot returned %v", err)
			}
			delete(w.SnapM.M, string(keyAt(o.Key)))
		} else if !errors.Is(err, wmpt.ErrNotFound) {
			return fmt.Sprintf("delete of an absent key through the snapshot returned %v, want ErrNotFound", err)
		}
	case 'P':
		w.ChkSnap = w.T.CopyRoot(64)
		w.T.SaveRoot()
		c := *w.lastCommit()
		w.Chk = &c
		w.ChkKeys = w.S.Keys()
		w.SinceChk = 0
	case 'B', 'T', 'Q':
		if o.K == 'B' {
			w.T.Rollback()
		} else if o.K == 'Q' {
			w.T.RollbackTrie(w.ChkSnap)
		} else {
			w.T.RollbackTrie(w.sharedNode(w.Chk.root, w.Chk.weight))
		}
		w.M = w.Chk.m.Clone()
		w.Pending = false
		w.GCPending = 0
		w.RolledBack = true
		// from the rollback's storage write on, the checkpoint is the committed state
		w.Commits = append(w.Commits, commitPoint{logLen: w.S.Len(), madeAt: w.Chk.madeAt, root: w.Chk.root, weight: w.Chk.weight, m: w.Chk.m.Clone()})
	}
	return ""
}

// Observe compares weight, root and the owner of every block with the model (mutates the trie's dirty flags: only call on an instance that is thrown away).
func Observe(t *wmpt.WeightedMerkleTrie, m *model.WModel, withProofs bool) (fail string) {
	defer func() {
		if r := recover(); r != nil {
			fail = fmt.Sprintf("panic while reading: %v", r)
		}
	}()
	if got, want := t.Weight(), m.Total(); got != want {
		return fmt.Sprintf("Weight() = %d, sum of live weights = %d", got, want)
	}
	root := m.Root()
	if got := t.Root(); !bytes.Equal(got, root) {
		return fmt.Sprintf("Root() = %x, independent computation from the live set gives %x", got, root)
	}
	total := m.Total()
	for b := uint64(1); b <= total; b++ {
		own, _ := m.Owner(b)
		key, proof, err := t.GetBlockProof(b)
		if err != nil {
			return fmt.Sprintf("GetBlockProof(%d) of %d: %v", b, total, err)
		}
		if !bytes.Equal(key, own.Key) {
			return fmt.Sprintf("GetBlockProof(%d) owner = %x, cumulative-weight owner in key order = %x", b, key, own.Key)
		}
		if withProofs {
			h, v, err := (&wmpt.WeightedMerkleTrie{}).VerifyBlockProof(b, proof)
			if err != nil {
				return fmt.Sprintf("proof of block %d does not verify: %v", b, err)
			}
			if !bytes.Equal(h, root) || !bytes.Equal(v, own.Value) {
				return fmt.Sprintf("proof of block %d verifies to root %x value %q, want root %x value %q", b, h, v, root, own.Value)
			}
		}
	}
	return ""
}

// Reopened builds a trie from just (root hash, weight) on the given storage.
func Reopened(s *dev.Store, root []byte, weight uint64) *wmpt.WeightedMerkleTrie {
	if weight == 0 {
		return wmpt.New(nil, s)
	}
	return wmpt.New(wmpt.NewHashNode(root, weight), s)
}

func modelKey(m *model.WModel) string {
	var es []string
	for _, e := range m.Sorted() {
		es = append(es, fmt.Sprintf("%x=%s", e.Key[:2], e.Value)+fmt.Sprintf("/%x", e.Key[31]))
	}
	return strings.Join(es, ",")
}

func (w *World) Key() string {
	if !haveDump {
		return ""
	}
	var sb strings.Builder
	sb.WriteString(modelKey(w.M))
	fmt.Fprintf(&sb, "|pending=%v|faults=%d|reads=%d|", w.Pending, w.Faults, w.Reads)
	if c := w.lastCommit(); c != nil {
		fmt.Fprintf(&sb, "last=%x{%s}|", c.root[:6], modelKey(c.m))
	}
	if w.Chk != nil {
		ck := append([]string(nil), w.ChkKeys...)
		sort.Strings(ck)
		fmt.Fprintf(&sb, "chk=%x{%s}since=%d rb=%v keys=%x|", w.Chk.root[:6], modelKey(w.Chk.m), w.SinceChk, w.RolledBack, model.Sha3([]byte(strings.Join(ck, "")))[:8])
	}
	sb.WriteString(dumpTrie(w.T))
	if w.Snap != nil {
		sb.WriteString("|snap{" + modelKey(w.SnapM) + "}" + dumpTrie(w.Snap))
	}
	sb.WriteString("|store:")
	for _, k := range w.S.Keys() {
		fmt.Fprintf(&sb, "%x,", k[:10])
	}
	return sb.String()
}

func modelEntry(k, v []byte, w uint64) model.WEntry {
	return model.WEntry{Key: append([]byte(nil), k...), Value: append([]byte(nil), v...), Weight: w}
}
