package sc

import (
	"fmt"

	"github.com/0chain/common/core/statecache"

	"verifmc/rt"
)

// capacityScenarios: macro-event universes around the per-key capacity (200 block entries per key)
// and the ancestor-link capacity (2000). A hit must still be right when an intermediate entry has
// been evicted while an older ancestor's entry survives (LRU order is by use, so a re-read ancestor
// outlives a newer descendant entry).
func capacityScenarios(rep *rt.Report) {
	commit := func(sc *statecache.StateCache, hash, prev string, kv map[string]string) {
		bc := statecache.NewBlockCache(sc, statecache.Block{Hash: hash, PrevHash: prev})
		tc := statecache.NewTransactionCache(bc)
		for k, v := range kv {
			tc.Set(k, statecache.String(v))
		}
		tc.Commit()
		bc.Commit()
	}
	for _, siblings := range []int{150, 197, 198, 199, 200, 260} {
		for _, reread := range []bool{false, true} {
			sc := statecache.NewStateCache()
			commit(sc, "b1", "b0", map[string]string{"k": "1"})
			commit(sc, "b2", "b1", map[string]string{"j": "x"})
			commit(sc, "b3", "b2", map[string]string{"k": "3"})
			commit(sc, "b4", "b3", map[string]string{"j": "y"})
			if reread {
				sc.Get("k", "b1")
			}
			for i := 0; i < siblings; i++ {
				commit(sc, fmt.Sprintf("s%d", i), "b1", map[string]string{"k": fmt.Sprintf("s%d", i)})
			}
			_, maxPerKey, _ := dumpSC(sc)
			v, ok := sc.Get("k", "b4")
			rep.Add("capacity_scenarios", 1)
			name := fmt.Sprintf("chain b1:k=1 <- b2 <- b3:k=3 <- b4; reread(k,b1)=%v; %d sibling blocks of b2 writing k; Get(k,b4)", reread, siblings)
			if ok && render(v) != "3" {
				msg := fmt.Sprintf("%s returned %s; the value on b4's chain is 3", name, render(v))
				// discriminator: attributed to the capacity finding only if the entries this history legitimately
				// creates for k (b1, b3 and one per sibling) exceed the capacity, i.e. something had to be evicted,
				// and the dumped per-key map is indeed at its capacity
				if siblings+2 > 200 && (!haveDump || maxPerKey >= 200) && rt.OpenFinding("C06-capacity-eviction") {
					rep.KnownHit("C06-capacity-eviction", name, msg)
					continue
				}
				rep.Violate(msg, map[string]any{"scenario": name})
			}
		}
	}
	// deep walks below the capacity: W consecutive blocks rewrite k, H more blocks do not touch it; an old
	// writer X is re-read (its entry becomes the most recently used), then k is looked up at the tip (a walk
	// over H blocks). The history creates W entries for k plus one memoised entry per lookup at a non-writer,
	// always fewer than the capacity here: nothing may be evicted, every later hit must be exact.
	for _, p := range [][3]int{{60, 175, 5}, {150, 100, 0}, {20, 400, 5}, {190, 30, 100}, {198, 60, 3}, {100, 250, 50}} {
		W, H, X := p[0], p[1], p[2]
		sc := statecache.NewStateCache()
		name := func(i int) string { return fmt.Sprintf("c%d", i) }
		for i := 0; i < W+H; i++ {
			prev := "c-root"
			if i > 0 {
				prev = name(i - 1)
			}
			if i < W {
				commit(sc, name(i), prev, map[string]string{"k": fmt.Sprintf("w%d", i)})
			} else {
				commit(sc, name(i), prev, map[string]string{"j": "x"})
			}
		}
		desc := fmt.Sprintf("chain of %d blocks rewriting k (w0..w%d) followed by %d blocks not touching it; Get(k,c%d); Get(k,tip)", W, W-1, H, X)
		rep.Add("capacity_scenarios", 1)
		bad := func(what, got, want string) {
			rep.Violate(fmt.Sprintf("%s; then %s returned %s; the value on that block's chain is %s and this history creates only %d entries for k (capacity 200)", desc, what, got, want, W+1), map[string]any{"scenario": desc})
		}
		if v, ok := sc.Get("k", name(X)); ok && render(v) != fmt.Sprintf("w%d", X) {
			bad(fmt.Sprintf("Get(k,c%d)", X), render(v), fmt.Sprintf("w%d", X))
			continue
		}
		tip := name(W + H - 1)
		if v, ok := sc.Get("k", tip); ok && render(v) != fmt.Sprintf("w%d", W-1) {
			bad("Get(k,tip)", render(v), fmt.Sprintf("w%d", W-1))
			continue
		}
		failed := false
		// the writers (their own entries: no new entry is created by these lookups), nearest to X first
		for d := 1; d < W && !failed; d++ {
			for _, i := range []int{X + d, X - d} {
				if i < 0 || i >= W {
					continue
				}
				if v, ok := sc.Get("k", name(i)); ok && render(v) != fmt.Sprintf("w%d", i) {
					bad(fmt.Sprintf("Get(k,c%d)", i), render(v), fmt.Sprintf("w%d", i))
					failed = true
					break
				}
			}
		}
		if failed {
			continue
		}
		if v, ok := sc.Get("k", tip); ok && render(v) != fmt.Sprintf("w%d", W-1) {
			bad("a second Get(k,tip)", render(v), fmt.Sprintf("w%d", W-1))
		}
	}
}
