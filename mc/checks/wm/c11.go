package wm

import (
	"encoding/binary"
	"fmt"
	"sort"
	"strings"
	"time"

	"verifmc/explore/seq"
	"verifmc/model"

	"verifmc/dev"
	"verifmc/rt"
)

// c11Oracle: after each batch commit and each DeleteNodes the last committed root is
// recoverable from storage alone; for every crash point inside the last operation's
// writes the last durably committed root is recoverable.
func c11Oracle(w *World, last Op) string {
	c := w.lastCommit()
	if c == nil {
		return ""
	}
	if last.K == 'C' || last.K == 'G' || last.K == 'g' || last.K == 'B' || last.K == 'T' || last.K == 'Q' {
		if f := recoverable(w.S, *c, "after "+last.String()); f != "" {
			w.FailCP, w.FailStore = c, w.S
			return f
		}
	}
	// crash points: every prefix of the log that ends inside the writes of the last operation
	log := w.S.Snapshot()
	prev := 0
	appended := last.K == 'C' || last.K == 'B' || last.K == 'T' || last.K == 'Q' // these add a commit point
	if len(w.Commits) >= 2 && appended {
		prev = w.Commits[len(w.Commits)-2].logLen
	} else if appended {
		prev = 0
	} else {
		prev = c.logLen
	}
	if last.K != 'C' && last.K != 'G' && last.K != 'g' && last.K != 'B' && last.K != 'T' && last.K != 'Q' {
		return ""
	}
	for cut := prev; cut < len(log); cut++ {
		// the last commit whose batch lies inside the prefix
		var durable *commitPoint
		for i := range w.Commits {
			if w.Commits[i].logLen <= cut {
				durable = &w.Commits[i]
			}
		}
		if durable == nil {
			continue
		}
		s := dev.FromLog(log[:cut])
		if f := recoverable(s, *durable, fmt.Sprintf("crash after %d of %d storage writes (during %s)", cut, len(log), last)); f != "" {
			w.FailCP, w.FailStore = durable, s
			return f
		}
	}
	return ""
}

// c11Classify attributes failures to open known findings by model-level predicates; everything else is a violation.
func c11Classify(w *World, last Op, f string) seq.Outcome {
	notFound := strings.Contains(f, "not found")
	if rt.OpenFinding("C11-gc-ahead-of-commit") && last.K == 'G' && w.GCPending >= 2 && notFound && strings.Contains(f, "trie reopened from root") {
		return seq.Outcome{Verdict: seq.Known, Finding: "C11-gc-ahead-of-commit", Msg: f}
	}
	if w.FailCP != nil && notFound {
		lost, ok := lostNodes(w, w.FailCP, w.FailStore)
		if ok && len(lost) > 0 {
			rew := rewrittenWhilePresent(w.S.Snapshot())
			all := true
			for _, h := range lost {
				if !rew[h] {
					all = false
				}
			}
			id := "C11-rewritten-node-collected"
			if last.K == 'B' || last.K == 'T' || last.K == 'Q' {
				id = "C13-rewritten-node-deleted"
			}
			if all && rt.OpenFinding(id) {
				return seq.Outcome{Verdict: seq.Known, Finding: id, Msg: f + fmt.Sprintf(" (lost nodes %x were written again with identical content by a later commit)", lost)}
			}
			// shared alphabet only: every lost node is the stored value node of a value that two live keys
			// held at the same time (one of them released it, the other still needs it)
			if bool(w.Shared) && rt.OpenFinding("C11-shared-node-collected") {
				sharedAll := true
				for _, h := range lost {
					ok := false
					for v := range w.EverShared {
						buf := make([]byte, 8)
						binary.BigEndian.PutUint64(buf, Weight(v))
						if string(model.Sha3(append(buf, v...))) == h {
							ok = true
						}
					}
					if !ok {
						sharedAll = false
					}
				}
				if sharedAll {
					return seq.Outcome{Verdict: seq.Known, Finding: "C11-shared-node-collected", Msg: f + fmt.Sprintf(" (lost nodes %x are value nodes shared by two keys)", lost)}
				}
			}
			f += fmt.Sprintf(" (lost nodes: %x)", lost)
		}
	}
	return seq.Outcome{Verdict: seq.Violation, Msg: f}
}

// lostNodes: the storage keys that recovering commit point cp needs (measured by
// recovering it on the storage as it was right after that commit) and that the
// storage st no longer holds. ok=false if cp was not recoverable even then.
func lostNodes(w *World, cp *commitPoint, st *dev.Store) ([]string, bool) {
	log := w.S.Snapshot()
	if cp.madeAt > len(log) {
		return nil, false
	}
	then := dev.FromLog(log[:cp.madeAt])
	then.RecordGets = map[string]bool{}
	if f := Observe(Reopened(then, cp.root, cp.weight), cp.m, true); f != "" {
		return nil, false
	}
	var lost []string
	for k := range then.RecordGets {
		if !st.Has([]byte(k)) {
			lost = append(lost, k)
		}
	}
	sort.Strings(lost)
	return lost, true
}

// rewrittenWhilePresent: keys that some write record Put although they were already stored.
func rewrittenWhilePresent(log []dev.Rec) map[string]bool {
	present, rew := map[string]bool{}, map[string]bool{}
	for _, r := range log {
		for _, op := range r.Ops {
			if op.Del {
				delete(present, op.K)
			} else {
				if present[op.K] {
					rew[op.K] = true
				}
				present[op.K] = true
			}
		}
	}
	return rew
}

// C11: committed trie recoverable; garbage collection keeps live nodes.
func C11(tier rt.Tier) int {
	rep := rt.NewReport("C11", tier)
	var runs []cfg
	per := 30 * time.Second
	if tier == rt.Quick {
		runs = []cfg{
			{name: "1key-very-deep", keys: []int{0}, vals: []string{"a", "b"}, levels: []int{0}, gc: true, depth: 13, c11: true, maxNoDup: 7},
			{name: "2keys-very-deep", keys: []int{0, 4}, vals: []string{"a", "b"}, levels: []int{1}, gc: true, depth: 10, c11: true, maxNoDup: 6},
			{name: "3way-non-root-branch", keys: []int{4, 6, 7, 5}, vals: []string{"a"}, levels: []int{0}, gc: true, depth: 10, c11: true, maxNoDup: 6},
			// collection passes whose storage write is rejected, retried later
			{name: "1key-failing-gc-writes", keys: []int{0}, vals: []string{"a", "b"}, levels: []int{0}, gc: true, gcFault: true, depth: 10, c11: true, maxNoDup: 6},
			{name: "2keys-failing-gc-writes", keys: []int{0, 4}, vals: []string{"a"}, levels: []int{0}, gc: true, gcFault: true, depth: 11, c11: true, maxNoDup: 6},
			{name: "distinct-values-3keys", keys: []int{0, 2, 5}, vals: []string{"a", "b"}, levels: []int{0, 1, 64}, gc: true, rootOp: true, depth: 6, c11: true, maxNoDup: 4},
			{name: "4keys", keys: []int{0, 1, 2, 4}, vals: []string{"a", "c"}, levels: []int{0, 64}, gc: true, rootOp: true, depth: 6, c11: true, maxNoDup: 4},
			// release in one commit, identical re-creation in a later commit, GC passes anywhere (needs 8+ operations)
			{name: "recreate-across-commits", keys: []int{0, 5}, vals: []string{"a"}, levels: []int{0}, gc: true, depth: 9, c11: true, maxNoDup: 5},
			// equal values under different keys: stored value nodes (and equal subtrees) are shared between live positions
			{name: "shared-values-3keys", shared: true, keys: []int{0, 1, 5}, vals: []string{"a", "b"}, levels: []int{0, 64}, gc: true, depth: 7, c11: true, maxNoDup: 4},
		}
	} else {
		per = 4 * time.Minute
		runs = []cfg{
			{name: "1key-very-deep", keys: []int{0}, vals: []string{"a", "b"}, levels: []int{0, 1}, gc: true, depth: 16, c11: true, maxNoDup: 8},
			{name: "2keys-very-deep", keys: []int{0, 4}, vals: []string{"a", "b"}, levels: []int{0, 1}, gc: true, depth: 12, c11: true, maxNoDup: 7},
			{name: "distinct-values-3keys", keys: []int{0, 2, 5}, vals: []string{"a", "b"}, levels: []int{0, 1, 2, 64}, gc: true, rootOp: true, reload: true, depth: 9, c11: true, maxNoDup: 5},
			{name: "5keys", keys: []int{0, 1, 2, 4, 5}, vals: []string{"a", "b"}, levels: []int{0, 1, 64}, gc: true, rootOp: true, depth: 8, c11: true, maxNoDup: 5},
		}
	}
	for _, c := range runs {
		runCfg(rep, c, time.Now().Add(per), c11Classify)
	}
	if rt.Replay == nil || rt.Replay.Run == "width" {
		// wide branches: up to 16 changed children of one branch in a single commit (the commit fans out over them)
		wideCases(rep, tier, []int{1, 2}, true)
	}
	if rt.Replay == nil || rt.Replay.Run == "scale" {
		scaleC11(rep, 700)
		if tier == rt.Thorough {
			scaleC11(rep, 4000)
		}
	}
	rep.Set("dedup", haveDump)
	rep.Set("rule", "BFS over all histories of {Update, delete, re-add of identical content (two values only), Root() at any time, Commit(level)+batch.Commit, DeleteNodes anywhere and repeatedly, reload}; after every batch commit and every DeleteNodes a trie reopened from just (root hash, weight) on the same storage must equal the model: total weight and, for every block, owner, value and a verifying proof; for EVERY prefix of the storage write log inside the last operation the last durably committed root must be recoverable the same way")
	rep.Assumption("crash model: prefix of the storage write log, batches atomic (Pebble NoSync batch semantics)")
	return rep.Finish()
}
