package wm

import (
	"fmt"
	"os"
	"strings"
	"sync"
	"sync/atomic"
	"time"

	"github.com/0chain/common/core/util/wmpt"

	"verifmc/dev"
	"verifmc/explore/seq"
	"verifmc/model"
	"verifmc/rt"
)

type cfg struct {
	name        string
	shared      Shared
	keys        []int
	vals        []string
	levels      []int
	gc          bool
	reload      bool
	rootOp      bool
	depth       int
	c11         bool  // recovery + crash oracles
	c13         bool  // checkpoint / rollback ops and oracle
	maxNoDup    int   // depth used when the dump is unavailable
	alt         bool  // mutate through Put / Delete instead of Update
	faults      bool  // updates/deletes with an injected storage read error are part of the alphabet
	proofOp     bool  // GetBlockProof on the live trie is an event (only while nothing is pending)
	gcFault     bool  // "DeleteNodes while the storage write fails" is an event
	anyRollback bool  // rollback is also tried with nothing committed since the checkpoint and with uncommitted changes on top
	snap        []int // collapse levels of the snapshot op (CopyRoot); enables updates/deletes through the snapshot
}

func (c cfg) ops() []Op {
	var ops []Op
	for _, k := range c.keys {
		for _, v := range c.vals {
			ops = append(ops, Op{K: 'U', Key: k, Val: v})
		}
		ops = append(ops, Op{K: 'X', Key: k})
	}
	for _, l := range c.levels {
		ops = append(ops, Op{K: 'C', Level: l})
	}
	if c.gc {
		ops = append(ops, Op{K: 'G'})
	}
	if c.reload {
		ops = append(ops, Op{K: 'L'})
	}
	if c.rootOp {
		ops = append(ops, Op{K: 'R'})
	}
	if c.c13 {
		ops = append(ops, Op{K: 'P'}, Op{K: 'B'}, Op{K: 'T'}, Op{K: 'Q'})
	}
	if c.proofOp {
		ops = append(ops, Op{K: 'p'})
	}
	if c.gcFault {
		ops = append(ops, Op{K: 'g'})
	}
	if c.faults {
		for _, k := range c.keys {
			ops = append(ops, Op{K: 'u', Key: k, Val: c.vals[len(c.vals)-1]}, Op{K: 'x', Key: k})
		}
	}
	for _, l := range c.snap {
		ops = append(ops, Op{K: 'Y', Level: l})
	}
	if len(c.snap) > 0 {
		ops = append(ops, Op{K: 'V', Key: c.keys[0], Val: c.vals[len(c.vals)-1]}, Op{K: 'W', Key: c.keys[0]}, Op{K: 'V', Key: c.keys[len(c.keys)-1], Val: c.vals[0]})
	}
	return ops
}

func build(sh Shared, ops []Op, h []uint8, alt ...bool) (*World, string, bool) {
	w := NewWorld(sh)
	w.Alt = len(alt) > 0 && alt[0]
	for i, x := range h {
		f := w.Apply(ops[x])
		if rt.Replay != nil && os.Getenv("VERIF_TRACE") != "" {
			fmt.Printf("  %-34s %s | store %d keys\n", ops[x], dumpTrie(w.T), len(w.S.Keys()))
		}
		if f != "" {
			return w, f, i != len(h)-1
		}
	}
	return w, "", false
}

// recoverable: a trie reopened from just (root, weight) on storage s equals the model.
func recoverable(s *dev.Store, c commitPoint, when string) string {
	if f := Observe(Reopened(s, c.root, c.weight), c.m, true); f != "" {
		return fmt.Sprintf("%s: trie reopened from root %x / weight %d: %s", when, c.root[:6], c.weight, f)
	}
	return ""
}

func runCfg(rep *rt.Report, c cfg, deadline time.Time, classify func(w *World, last Op, f string) seq.Outcome) {
	ops := c.ops()
	depth := c.depth
	if !haveDump && c.maxNoDup > 0 && c.maxNoDup < depth {
		depth = c.maxNoDup
	}
	sc := seq.Config{
		Name: c.name, NOps: len(ops), MaxDepth: depth, Workers: rt.Workers(), Deadline: deadline,
		OpName: func(i int) string { return ops[i].String() },
		Enabled: func(h []uint8, op int) bool {
			k := ops[op].K
			if k == 'Y' || k == 'V' || k == 'W' {
				// one snapshot per history, taken when hashes are current (right after a commit); it is written to afterwards only
				pending, commits, snap := false, 0, false
				for _, x := range h {
					switch ops[x].K {
					case 'U', 'X':
						pending = true
					case 'C':
						pending = false
						commits++
					case 'Y':
						snap = true
					}
				}
				if k == 'Y' {
					return !snap && !pending && commits >= 1
				}
				return snap
			}
			if k == 'p' {
				// reading proofs from a trie with uncommitted changes clears its dirty flags (outside the properties)
				pending := false
				for _, x := range h {
					switch ops[x].K {
					case 'U', 'X', 'u', 'x':
						pending = true
					case 'C', 'B', 'T', 'Q':
						pending = false
					}
				}
				return !pending
			}
			if k != 'L' && k != 'P' && k != 'B' && k != 'T' && k != 'Q' {
				return true
			}
			// reload / checkpoint / rollback only when nothing is pending since the last commit
			pending, commits, chk, since, rolled, gcAfter := false, 0, false, 0, false, 0
			for _, x := range h {
				switch ops[x].K {
				case 'U', 'X':
					pending = true
				case 'C':
					if pending {
						since++ // a commit with nothing pending does not count as the commit after the checkpoint
						gcAfter = 0
					}
					pending = false
					commits++
				case 'G':
					gcAfter++
				case 'P':
					chk, since = true, 0
				case 'B', 'T', 'Q':
					rolled = true
				}
			}
			switch k {
			case 'L':
				return !pending && !chk
			case 'P':
				return !pending && commits >= 1 && !chk
			default:
				if c.anyRollback {
					// also: nothing committed since the checkpoint (only uncommitted changes, or none), and uncommitted
					// changes on top of the one commit
					return chk && !rolled && (since == 0 || (since == 1 && gcAfter <= 1))
				}
				return chk && since == 1 && !pending && !rolled && gcAfter <= 1 // at most one intervening GC pass
			}
		},
		Run: func(h []uint8) seq.Outcome {
			w, f, prefixFailed := build(c.shared, ops, h, c.alt)
			var last Op
			if len(h) > 0 {
				last = ops[h[len(h)-1]]
			}
			if f != "" {
				if prefixFailed {
					return seq.Outcome{Verdict: seq.Violation, Msg: "non-deterministic replay: prefix failed: " + f}
				}
				return classify(w, last, f)
			}
			if w.Unjudged {
				return seq.Outcome{Cut: true}
			}
			key := w.Key()
			if c.c11 || c.c13 {
				if f := c11Oracle(w, last); f != "" {
					return classify(w, last, f)
				}
			}
			if c.c13 && (last.K == 'B' || last.K == 'T' || last.K == 'Q') {
				if f := c13Oracle(w, last); f != "" {
					return classify(w, last, f)
				}
			}
			if f := Observe(w.T, w.M, !c.c11); f != "" {
				return classify(w, last, f)
			}
			if lc := w.lastCommit(); lc != nil && (c.c11 || c.c13 || c.proofOp) && (last.K == 'C' || last.K == 'G' || last.K == 'g' || last.K == 'U' || last.K == 'X' || last.K == 'p' || last.K == 'L') {
				// a second trie opened on the last committed root through the SAME hash-node object the live trie was
				// (re)loaded from: whatever the live trie did since, that root still reads what was committed
				if f := Observe(w.reopenShared(*lc), lc.m, true); f != "" {
					return classify(w, last, fmt.Sprintf("a second trie opened on the last committed root %x through the hash-node object shared with the live trie: %s", lc.root[:6], f))
				}
			}
			if w.Snap != nil {
				if f := Observe(w.Snap, w.SnapM, true); f != "" {
					return classify(w, last, "the snapshot taken with CopyRoot (content {"+modelKey(w.SnapM)+"}): "+f)
				}
			}
			return seq.Outcome{Key: key}
		},
	}
	st := seq.Explore(sc)
	rep.Add("states", st.States)
	rep.Add("transitions", st.Transitions)
	rep.Add("traces_validated_against_impl", st.Transitions)
	rep.Add("evaluations", st.Transitions)
	rep.Add("distinct_nontrivial", st.States)
	rep.Sub[st.Name] = map[string]any{"keys": c.keys, "values": c.vals, "shared_values": bool(c.shared), "collapse_levels": c.levels, "gc": c.gc, "reload": c.reload, "root_op": c.rootOp, "stats": st}
	for _, s := range st.Samples {
		rep.Sample(map[string]any{"run": st.Name, "history": s})
	}
	if !st.Exhaustive {
		rep.NotExhaustive(st.Name + ": " + st.Cap)
	}
	for id, k := range st.Known {
		for i := 0; i < k.Count; i++ {
			rep.KnownHit(id, fmt.Sprint(k.Witness), k.Msg)
		}
	}
	for _, v := range st.Violations {
		rep.Violate(fmt.Sprintf("[%s] %v => %s", st.Name, v.Hist, v.Msg), map[string]any{"run": st.Name, "history": v.Hist, "ops": v.Raw})
	}
}

func plainClassify(w *World, last Op, f string) seq.Outcome {
	return seq.Outcome{Verdict: seq.Violation, Msg: f}
}

// C09: weight, block ownership and root follow content.
func C09(tier rt.Tier) int {
	rep := rt.NewReport("C09", tier)
	var runs []cfg
	per := 30 * time.Second
	if tier == rt.Quick {
		runs = []cfg{
			{name: "6keys-mem+commit", keys: []int{0, 1, 2, 3, 4, 5}, vals: []string{"a", "b"}, levels: []int{0, 2, 64}, gc: true, reload: true, rootOp: true, depth: 4, maxNoDup: 3},
			{name: "3keys-deep", keys: []int{0, 1, 2}, vals: []string{"a", "b", "c"}, levels: []int{0, 1, 3}, gc: true, reload: true, rootOp: true, depth: 6, maxNoDup: 4},
			// one and two keys, much deeper: long alternations of rewrite / commit / collect / reload
			{name: "1key-very-deep", keys: []int{0}, vals: []string{"a", "b"}, levels: []int{0}, gc: true, reload: true, depth: 13, maxNoDup: 7},
			{name: "2keys-very-deep", keys: []int{0, 4}, vals: []string{"a", "b"}, levels: []int{1}, gc: true, reload: true, depth: 10, maxNoDup: 6},
			// a non-root branch with three and four children (keys 01.., 02.., 03.. under the root's child 0, key 1.. beside it)
			{name: "3way-non-root-branch", keys: []int{4, 6, 7, 5}, vals: []string{"a"}, levels: []int{0}, gc: true, reload: true, depth: 10, maxNoDup: 6},
			// proofs read from the live trie between reloads and updates (all tries of one root share one hash-node object)
			{name: "proofs-between-reloads", keys: []int{0, 1, 4}, vals: []string{"a", "b"}, levels: []int{0, 1}, reload: true, proofOp: true, depth: 6, maxNoDup: 4},
			// operations that fail with a storage read error (collapsed nodes must be loaded) leave the trie as it was
			{name: "3keys-read-faults", keys: []int{0, 1, 4}, vals: []string{"a", "b"}, levels: []int{0, 1}, reload: true, faults: true, depth: 5, maxNoDup: 4},
			// the other exported mutators
			{name: "3keys-put-delete", keys: []int{0, 1, 4}, vals: []string{"a", "b"}, levels: []int{0, 2}, gc: true, reload: true, alt: true, depth: 5, maxNoDup: 4},
			// a snapshot of the committed trie is a trie of its own: source and snapshot are then changed independently
			{name: "snapshot-3keys", keys: []int{0, 1, 4}, vals: []string{"a", "b"}, levels: []int{0, 64}, snap: []int{0, 1, 64}, depth: 6, maxNoDup: 4},
		}
	} else {
		per = 4 * time.Minute
		runs = []cfg{
			{name: "6keys-mem+commit", keys: []int{0, 1, 2, 3, 4, 5}, vals: []string{"a", "b"}, levels: []int{0, 1, 2, 3, 64}, gc: true, reload: true, rootOp: true, depth: 6, maxNoDup: 4},
			{name: "3keys-deep", keys: []int{0, 1, 2}, vals: []string{"a", "b", "c"}, levels: []int{0, 1, 2, 3, 64}, gc: true, reload: true, rootOp: true, depth: 9, maxNoDup: 5},
			{name: "1key-very-deep", keys: []int{0}, vals: []string{"a", "b"}, levels: []int{0, 1}, gc: true, reload: true, depth: 16, maxNoDup: 8},
			{name: "2keys-very-deep", keys: []int{0, 4}, vals: []string{"a", "b"}, levels: []int{0, 1}, gc: true, reload: true, depth: 12, maxNoDup: 7},
			{name: "4keys-read-faults", keys: []int{0, 1, 2, 4}, vals: []string{"a", "b"}, levels: []int{0, 1, 2}, reload: true, faults: true, depth: 7, maxNoDup: 5},
			{name: "4keys-put-delete", keys: []int{0, 1, 2, 4}, vals: []string{"a", "b"}, levels: []int{0, 1, 64}, gc: true, reload: true, alt: true, depth: 7, maxNoDup: 5},
			{name: "snapshot-4keys", keys: []int{0, 1, 2, 4}, vals: []string{"a", "b"}, levels: []int{0, 1, 64}, snap: []int{0, 1, 2, 64}, depth: 8, maxNoDup: 5},
		}
	}
	for _, c := range runs {
		runCfg(rep, c, time.Now().Add(per), plainClassify)
	}
	if rt.Replay == nil || rt.Replay.Run == "width" {
		wideCases(rep, tier, []int{0, 1, 2}, false)
	}
	if rt.Replay == nil || rt.Replay.Run == "scale" {
		scaleC09(rep, 700)
		if tier == rt.Thorough {
			scaleC09(rep, 5000)
		}
	}
	rep.Set("dedup", haveDump)
	rep.Set("rule", "BFS over all histories of {Update(k,v,weight(v)), delete (in the put-delete runs through Put and Delete, whose reported released weight is judged), Commit(level)+batch.Commit for the listed collapse levels, DeleteNodes, reload from (root hash, weight), Root(), and in the snapshot runs: snapshot = New(CopyRoot(level)) of the committed trie, updates/deletes through the snapshot} over 32-byte keys sharing prefixes of 63/3/2/1/0 nibbles; after every operation on a throw-away replay: Weight() = sum of live weights, Root() = independent root, for EVERY block 1..W GetBlockProof returns the cumulative-weight owner and the proof verifies to (root, owner's value); delete of an absent key must return ErrNotFound; in the read-fault runs an update/delete whose first storage read fails must either report an error and leave the trie as it was or succeed completely; a snapshot is judged like the trie itself against the content it was taken with plus its own later writes; states merged on model + dumped trie structure (dirty/collapsed flags, GC sets) + storage keys")
	rep.Assumption("storage is an in-memory StorageAdapter with atomic batches; Pebble itself is not under test")
	return rep.Finish()
}

// ---- width cases (engine E4): the BFS keys use the nibbles 0 and 1 only, so a branch never has a child
// in the slots 2..15. Here keys differ in ONE nibble position (first, second, next to last, last): every
// pair of the 16 nibble values, every 15-subset and the full set, in memory and committed+reloaded;
// after building, after a delete and after an update the trie is judged like every BFS state (weight,
// root vs the independent model, owner of every block, verifying proofs).
func wideCases(rep *rt.Report, tier rt.Tier, modes []int, gc bool) {
	type wcase struct {
		pos    int
		nibs   []int
		mode   int // 0 memory, 1 committed at level 0 and reloaded from (root, weight), 2 committed at level 1 (kept)
		reload bool
	}
	mkKey := func(pos, nib int) []byte {
		k := make([]byte, 32)
		for i := range k {
			k[i] = 0x5a
		}
		b := k[pos/2]
		if pos%2 == 0 {
			b = byte(nib)<<4 | b&0x0f
		} else {
			b = b&0xf0 | byte(nib)
		}
		k[pos/2] = b
		return k
	}
	var cases []wcase
	for _, pos := range []int{0, 1, 62, 63} {
		for _, mode := range modes {
			for i := 0; i < 16; i++ {
				for j := i + 1; j < 16; j++ {
					cases = append(cases, wcase{pos: pos, nibs: []int{i, j}, mode: mode}, wcase{pos: pos, nibs: []int{j, i}, mode: mode})
				}
				var sub []int
				for j := 0; j < 16; j++ {
					if j != i {
						sub = append(sub, j)
					}
				}
				cases = append(cases, wcase{pos: pos, nibs: sub, mode: mode})
			}
			cases = append(cases, wcase{pos: pos, nibs: []int{0, 1, 2, 3, 4, 5, 6, 7, 8, 9, 10, 11, 12, 13, 14, 15}, mode: mode},
				wcase{pos: pos, nibs: []int{15, 14, 13, 12, 11, 10, 9, 8, 7, 6, 5, 4, 3, 2, 1, 0}, mode: mode},
				wcase{pos: pos, nibs: []int{8, 0, 12, 4, 10, 6, 14, 2, 9, 1, 7, 11, 3, 13, 5, 15}, mode: mode})
		}
	}
	run := func(c wcase) (fail string) {
		defer func() {
			if r := recover(); r != nil {
				fail = fmt.Sprintf("panic: %v", r)
			}
		}()
		s := dev.NewStore()
		t := wmpt.New(nil, s)
		m := model.NewWModel()
		put := func(nib int, v string, w uint64) string {
			k := mkKey(c.pos, nib)
			if err := t.Update(k, []byte(v), w); err != nil {
				return fmt.Sprintf("Update(nibble %x) returned %v", nib, err)
			}
			if v == "" {
				delete(m.M, string(k))
			} else {
				m.M[string(k)] = model.WEntry{Key: k, Value: []byte(v), Weight: w}
			}
			return ""
		}
		for i, n := range c.nibs {
			if f := put(n, fmt.Sprintf("v%x", n), uint64(1+(i*5+n)%4)); f != "" {
				return f
			}
		}
		settle := func() string {
			switch c.mode {
			case 1, 2:
				b, err := t.Commit([]int{0, 0, 1}[c.mode])
				if err != nil {
					return "Commit: " + err.Error()
				}
				if err := b.Commit(false); err != nil {
					return "batch.Commit: " + err.Error()
				}
				if gc {
					// two collection passes after the commit, then the committed state must be recoverable from storage alone
					for pass := 0; pass < 2; pass++ {
						if err := t.DeleteNodes(); err != nil {
							return "DeleteNodes: " + err.Error()
						}
					}
					if f := Observe(Reopened(s, m.Root(), m.Total()), m, true); f != "" {
						return fmt.Sprintf("after the commit and two DeleteNodes passes, a trie reopened from root %x / weight %d: %s", m.Root()[:6], m.Total(), f)
					}
				}
				if c.mode == 1 {
					t = Reopened(s, m.Root(), m.Total())
				}
			}
			return ""
		}
		if f := settle(); f != "" {
			return f
		}
		if f := Observe(t, m, true); f != "" {
			return "after building: " + f
		}
		// delete the first inserted, update the last inserted (other weight), re-insert the deleted one
		first, last := c.nibs[0], c.nibs[len(c.nibs)-1]
		for _, st := range []struct {
			nib int
			v   string
			w   uint64
		}{{first, "", 0}, {last, fmt.Sprintf("u%x", last), 7}, {first, fmt.Sprintf("r%x", first), 2}} {
			if f := put(st.nib, st.v, st.w); f != "" {
				return f
			}
			if f := settle(); f != "" {
				return f
			}
			if f := Observe(t, m, true); f != "" {
				return fmt.Sprintf("after Update(nibble %x, %q, %d): %s", st.nib, st.v, st.w, f)
			}
		}
		return ""
	}
	var next int64
	var mu sync.Mutex
	reported := map[string]bool{}
	var wg sync.WaitGroup
	for i := 0; i < rt.Workers(); i++ {
		wg.Add(1)
		go func() {
			defer wg.Done()
			for {
				j := int(atomic.AddInt64(&next, 1)) - 1
				if j >= len(cases) {
					return
				}
				c := cases[j]
				if f := run(c); f != "" {
					key := fmt.Sprintf("%d/%d/%s", c.pos, c.mode, strings.SplitN(f, " ", 4)[0])
					mu.Lock()
					if !reported[key] {
						reported[key] = true
						rep.Violate(fmt.Sprintf("[width] keys differing in nibble %d taking the values %x (in this order), storage mode %d => %s", c.pos, c.nibs, c.mode, f), map[string]any{"run": "width", "pos": c.pos, "nibbles": c.nibs, "mode": c.mode})
					} else {
						rep.Add("violations_suppressed_duplicates", 1)
					}
					mu.Unlock()
				}
			}
		}()
	}
	wg.Wait()
	n := len(cases)
	rep.Add("states", n)
	rep.Add("transitions", 4*n)
	rep.Add("traces_validated_against_impl", 4*n)
	rep.Add("evaluations", 4*n)
	rep.Add("distinct_nontrivial", n)
	rep.Sub["width"] = map[string]any{"cases": n, "rule": "32-byte keys differing in ONE nibble (position 0, 1, 62 or 63): every ordered pair of the 16 nibble values, every 15-subset, the full set in three insertion orders; in memory, committed at level 0 and reloaded from (root, weight), committed at level 1; judged after building and after a delete, an update and a re-insert"}
}
