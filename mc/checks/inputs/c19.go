package inputs

import (
	"encoding/hex"
	"fmt"
	"strings"
	"sync"

	"github.com/0chain/common/core/util"

	"verifmc/model"
	"verifmc/rt"
)

type leaf string

func (l leaf) GetHash() string      { return string(l) }
func (l leaf) GetHashBytes() []byte { b, _ := hex.DecodeString(string(l)); return b }

func hhex(s string) string { return hex.EncodeToString(model.Sha3([]byte(s))) }

// refRoot is the recursive definition: hash pairs level by level, the last node of an
// odd level is paired with itself; a single leaf is paired with itself once.
func refRoot(level []string) string {
	if len(level) == 1 {
		return hhex(level[0] + level[0])
	}
	for len(level) > 1 {
		var next []string
		for i := 0; i < len(level); i += 2 {
			if i+1 < len(level) {
				next = append(next, hhex(level[i]+level[i+1]))
			} else {
				next = append(next, hhex(level[i]+level[i]))
			}
		}
		level = next
	}
	return level[0]
}

func refSize(n int) int {
	if n == 1 {
		return 2
	}
	size := 0
	for l := n; l > 1; l = (l + 1) / 2 {
		size += l
	}
	return size + 1
}

func C19(tier rt.Tier) int {
	rep := rt.NewReport("C19", tier)
	maxN, allPairs := 600, 160
	if tier == rt.Thorough {
		maxN, allPairs = 4096, 400
	}
	// leaf families: the usual 64-character hex hashes for every n, and (for small n) leaf hash strings of
	// other uniform lengths -- the tree takes whatever string GetHash() returns
	type family struct {
		name   string
		length int
		maxN   int
		leaves []string
	}
	smallN := 40
	if tier == rt.Thorough {
		smallN = 140
	}
	fams := []*family{{name: "64-character hashes", length: 64, maxN: maxN}}
	for _, l := range []int{2, 62, 63, 65, 66, 96, 127, 128, 129, 200} {
		fams = append(fams, &family{name: fmt.Sprintf("%d-character leaf hashes", l), length: l, maxN: smallN})
	}
	// spellings: leaf hashes are strings; upper-case hex, and pairs of leaves that differ only in letter case
	fams = append(fams, &family{name: "64-character upper-case hashes", length: -1, maxN: smallN}, &family{name: "64-character hashes in pairs that differ only in letter case", length: -2, maxN: smallN})
	for _, f := range fams {
		f.leaves = make([]string, f.maxN)
		for i := range f.leaves {
			h := hhex(fmt.Sprintf("leaf-%d", i))
			switch {
			case f.length == -1:
				f.leaves[i] = strings.ToUpper(h)
			case f.length == -2:
				f.leaves[i] = "ab" + hhex(fmt.Sprintf("leaf-%d", i/2))[2:]
				if i%2 == 1 {
					f.leaves[i] = strings.ToUpper(f.leaves[i])
				}
			case f.length == 64:
				f.leaves[i] = h
			case f.length == 2:
				f.leaves[i] = fmt.Sprintf("%02x", i) // distinct
			case f.length < 64:
				f.leaves[i] = h[:f.length]
			default:
				// a common 64-character head, the distinguishing characters behind it
				f.leaves[i] = (hhex("common-head") + h + h + h)[:f.length-8] + h[:8]
			}
		}
	}
	var mu sync.Mutex
	evals, paths, negatives := 0, 0, 0
	fails := 0
	type item struct{ fam, n int }
	reportF := func(it item, msg string) {
		mu.Lock()
		defer mu.Unlock()
		fails++
		if fails <= 3 {
			rep.Violate(fmt.Sprintf("n=%d leaves (%s): %s", it.n, fams[it.fam].name, msg), map[string]any{"n": it.n, "family": it.fam})
		}
	}
	total := 0
	for _, f := range fams {
		total += f.maxN
	}
	work := make(chan item, total)
	for fi, f := range fams {
		for n := 1; n <= f.maxN; n++ {
			work <- item{fi, n}
		}
	}
	close(work)
	var wg sync.WaitGroup
	for w := 0; w < rt.Workers(); w++ {
		wg.Add(1)
		go func() {
			defer wg.Done()
			for it := range work {
				n, leaves := it.n, fams[it.fam].leaves
				report := func(n int, msg string) { reportF(it, msg) }
				func() {
					defer func() {
						if r := recover(); r != nil {
							report(n, fmt.Sprintf("panic: %v", r))
						}
					}()
					hs := make([]util.Hashable, n)
					for i := 0; i < n; i++ {
						hs[i] = leaf(leaves[i])
					}
					var mt util.MerkleTree
					mt.ComputeTree(hs)
					root := mt.GetRoot()
					if want := refRoot(leaves[:n]); root != want {
						report(n, fmt.Sprintf("root %s differs from the recursive reference root %s", root, want))
						return
					}
					// export / import
					var mt2 util.MerkleTree
					tree := mt.GetTree() // the export itself, not a copy: it must stay what it is whatever the source does next
					if err := mt2.SetTree(n, tree); err != nil {
						report(n, "SetTree of the exported tree failed: "+err.Error())
						return
					}
					if mt2.GetRoot() != root {
						report(n, "reloaded tree has a different root")
						return
					}
					for _, wrong := range []int{n - 1, n + 1, 2*n + 1} {
						if wrong >= 1 && refSize(wrong) != len(tree) {
							var mt3 util.MerkleTree
							if err := mt3.SetTree(wrong, tree); err == nil {
								report(n, fmt.Sprintf("SetTree accepted a tree of %d leaves (size %d) as a tree of %d leaves", n, len(tree), wrong))
								return
							}
						}
					}
					// a tree object that was used before (computed over other leaves, then loaded) must answer like a fresh one
					var used util.MerkleTree
					other := make([]util.Hashable, 0, n+3)
					for i := n + 1; i >= 0; i-- { // other count, other order, partly other leaves
						other = append(other, leaf(leaves[(i+7)%len(leaves)]))
					}
					used.ComputeTree(other)
					_ = used.GetPath(other[0])
					if err := used.SetTree(n, append([]string(nil), tree...)); err != nil {
						report(n, "SetTree on a used tree object failed: "+err.Error())
						return
					}
					// a tree object whose last ComputeTree was given NO leaves (an empty batch), then loaded: as a fresh one
					var emptied util.MerkleTree
					func() {
						defer func() { _ = recover() }() // what an empty batch does to the object is not judged, only the load after it
						emptied.ComputeTree(nil)
						emptied.ComputeTree([]util.Hashable{})
					}()
					if err := emptied.SetTree(n, append([]string(nil), tree...)); err != nil {
						report(n, "SetTree on a tree object that had computed an empty batch failed: "+err.Error())
						return
					}
					if emptied.GetRoot() != root {
						report(n, fmt.Sprintf("a tree object that had computed an empty batch and was then loaded with SetTree has root %q, the loaded tree's root is %q", emptied.GetRoot(), root))
						return
					}
					// the source object goes on to compute other trees (same size, smaller, larger); exported and
					// loaded trees must not change. From here on `mt` is a fresh reference tree again.
					exported := append([]string(nil), tree...)
					for _, m := range []int{n, n - 1, n/2 + 1, n + 1} {
						if m >= 1 && m <= len(leaves) {
							again := make([]util.Hashable, m)
							for i := range again {
								again[i] = leaf(leaves[(i+13)%len(leaves)])
							}
							mt.ComputeTree(again)
						}
					}
					for i := range exported {
						if tree[i] != exported[i] {
							report(n, fmt.Sprintf("the exported tree changed at position %d after the source object computed another tree", i))
							return
						}
					}
					if mt2.GetRoot() != root || used.GetRoot() != root {
						report(n, "a loaded tree changed its root after the object it was exported from computed another tree")
						return
					}
					mt = util.MerkleTree{}
					mt.ComputeTree(hs)
					// a load that is REJECTED (wrong leaf count for the tree's size, also counts on the other side of a
					// power of two) must leave the object holding the tree it held: all three objects are judged below
					for _, wrong := range []int{n - 1, n + 1, 2*n + 1, n / 2, 2 * n, 4*n + 3, 1} {
						if wrong >= 1 && refSize(wrong) != len(tree) {
							for oi, o := range []*util.MerkleTree{&mt, &mt2, &used} {
								if err := o.SetTree(wrong, append([]string(nil), tree...)); err == nil {
									report(n, fmt.Sprintf("SetTree accepted a tree of %d leaves (size %d) as a tree of %d leaves (object %d)", n, len(tree), wrong, oi))
									return
								}
							}
						}
					}
					if mt.GetRoot() != root || mt2.GetRoot() != root || used.GetRoot() != root {
						report(n, "a rejected SetTree changed the root of the tree the object holds")
						return
					}
					// a caller keeps the paths it was given: every path of every object is fetched first (by lookup and by
					// index), and all of them are verified only afterwards
					{
						objs := []*util.MerkleTree{&mt, &mt2, &used, &emptied}
						var kept [][2]*util.MTPath
						for _, o := range objs {
							for i := 0; i < n; i++ {
								kept = append(kept, [2]*util.MTPath{o.GetPath(leaf(leaves[i])), o.GetPathByIndex(i)})
							}
						}
						for x, kp := range kept {
							oi, i := x/n, x%n
							for which, q := range kp {
								if q.LeafIndex != i || !util.VerifyMerklePath(leaves[i], q, root) {
									report(n, fmt.Sprintf("the path of leaf %d obtained from object %d (%s) no longer proves its leaf after the paths of the other leaves were fetched (leaf index %d, %d nodes)", i, oi, []string{"GetPath", "GetPathByIndex"}[which], q.LeafIndex, len(q.Nodes)))
									return
								}
							}
						}
					}
					le, lp, ln := 0, 0, 0
					for i := 0; i < n; i++ {
						p := mt.GetPathByIndex(i)
						lp++
						if p.LeafIndex != i {
							report(n, fmt.Sprintf("path for index %d carries leaf index %d", i, p.LeafIndex))
							return
						}
						if !util.VerifyMerklePath(leaves[i], p, root) || !mt.VerifyPath(leaf(leaves[i]), p) {
							report(n, fmt.Sprintf("path of leaf %d does not verify against the root", i))
							return
						}
						q := mt.GetPath(leaf(leaves[i]))
						if fmt.Sprint(q.Nodes) != fmt.Sprint(p.Nodes) || q.LeafIndex != i {
							report(n, fmt.Sprintf("GetPath(leaf %d) differs from GetPathByIndex(%d)", i, i))
							return
						}
						if u := used.GetPath(leaf(leaves[i])); fmt.Sprint(u.Nodes) != fmt.Sprint(p.Nodes) || u.LeafIndex != i || !used.VerifyPath(leaf(leaves[i]), u) {
							report(n, fmt.Sprintf("a tree object that had been used for another tree and was then loaded with SetTree gives a wrong path for leaf %d (index %d, %d nodes)", i, u.LeafIndex, len(u.Nodes)))
							return
						}
						if u := mt2.GetPath(leaf(leaves[i])); fmt.Sprint(u.Nodes) != fmt.Sprint(p.Nodes) || u.LeafIndex != i {
							report(n, fmt.Sprintf("reloaded tree gives a different path by leaf lookup for leaf %d", i))
							return
						}
						p2 := mt2.GetPathByIndex(i)
						if fmt.Sprint(p2.Nodes) != fmt.Sprint(p.Nodes) || p2.LeafIndex != i {
							report(n, fmt.Sprintf("reloaded tree gives a different path for leaf %d", i))
							return
						}
						le += 4
						// the same path must not verify for any other leaf hash
						var js []int
						if n <= allPairs {
							for j := 0; j < n; j++ {
								js = append(js, j)
							}
						} else {
							js = []int{i - 1, i + 1, i ^ 1, 0, n - 1, n - 2, n / 2}
						}
						for _, j := range js {
							if j < 0 || j >= n || j == i {
								continue
							}
							ln++
							if util.VerifyMerklePath(leaves[j], p, root) {
								report(n, fmt.Sprintf("the path of leaf %d also verifies leaf %d", i, j))
								return
							}
						}
						// a foreign hash and the sibling/parent hashes themselves must not verify either
						for _, other := range []string{hhex("foreign"), p.Nodes[0], root} {
							if other != leaves[i] {
								ln++
								if util.VerifyMerklePath(other, p, root) {
									report(n, fmt.Sprintf("the path of leaf %d verifies a hash that is not that leaf", i))
									return
								}
							}
						}
					}
					mu.Lock()
					evals += le + ln
					paths += lp
					negatives += ln
					mu.Unlock()
				}()
			}
		}()
	}
	wg.Wait()
	// leaf lists in which a hash occurs more than once ("any non-empty list"): the path of EVERY position verifies
	// by index; lookup by leaf answers for the first position of that hash
	dupN := 0
	for n := 2; n <= 70; n++ {
		for _, period := range []int{2, 3, 7} {
			dupN++
			ls := make([]string, n)
			hs := make([]util.Hashable, n)
			for i := range ls {
				ls[i] = hhex(fmt.Sprintf("dup-%d", i%period+(i/period)%2*100))
				hs[i] = leaf(ls[i])
			}
			first := map[string]int{}
			for i, l := range ls {
				if _, ok := first[l]; !ok {
					first[l] = i
				}
			}
			func() {
				defer func() {
					if r := recover(); r != nil {
						rep.Violate(fmt.Sprintf("n=%d leaves with repeated hashes (period %d): panic: %v", n, period, r), map[string]any{"n": n, "period": period})
					}
				}()
				var mt, mt2 util.MerkleTree
				mt.ComputeTree(hs)
				root := mt.GetRoot()
				if want := refRoot(ls); root != want {
					rep.Violate(fmt.Sprintf("n=%d leaves with repeated hashes (period %d): root differs from the reference root", n, period), map[string]any{"n": n, "period": period})
					return
				}
				if err := mt2.SetTree(n, mt.GetTree()); err != nil {
					rep.Violate(fmt.Sprintf("n=%d leaves with repeated hashes: SetTree of the exported tree failed: %v", n, err), map[string]any{"n": n, "period": period})
					return
				}
				for i := 0; i < n; i++ {
					for ti, t := range []*util.MerkleTree{&mt, &mt2} {
						p := t.GetPathByIndex(i)
						if p.LeafIndex != i || !util.VerifyMerklePath(ls[i], p, root) || !t.VerifyPath(leaf(ls[i]), p) {
							rep.Violate(fmt.Sprintf("n=%d leaves with repeated hashes (period %d): the path of position %d (tree object %d) does not verify against the root (VerifyMerklePath %v, VerifyPath %v)", n, period, i, ti, util.VerifyMerklePath(ls[i], p, root), t.VerifyPath(leaf(ls[i]), p)), map[string]any{"n": n, "period": period, "index": i})
							return
						}
						q := t.GetPath(leaf(ls[i]))
						if q.LeafIndex != first[ls[i]] || !util.VerifyMerklePath(ls[i], q, root) {
							rep.Violate(fmt.Sprintf("n=%d leaves with repeated hashes (period %d): lookup of the hash at position %d gives leaf index %d (its first position is %d) or a path that does not verify", n, period, i, q.LeafIndex, first[ls[i]]), map[string]any{"n": n, "period": period, "index": i})
							return
						}
					}
				}
				mu.Lock()
				paths += 2 * n
				evals += 6 * n
				mu.Unlock()
			}()
		}
	}
	rep.Set("lists_with_repeated_hashes", dupN)
	// scale: a few LARGE trees (levels of tens of thousands of nodes, sizes that are not round): root against
	// the reference, paths of the first/last 70 leaves and of every 197th leaf by index and by lookup
	big := []int{32770, 70001}
	if tier == rt.Thorough {
		big = []int{16389, 32770, 40006, 65550, 70001, 131075}
	}
	var bwg sync.WaitGroup
	for _, n := range big {
		bwg.Add(1)
		go func(n int) {
			defer bwg.Done()
			defer func() {
				if r := recover(); r != nil {
					rep.Violate(fmt.Sprintf("n=%d leaves (large tree): panic: %v", n, r), map[string]any{"n": n})
				}
			}()
			ls := make([]string, n)
			hs := make([]util.Hashable, n)
			for i := range ls {
				ls[i] = hhex(fmt.Sprintf("big-%d", i))
				hs[i] = leaf(ls[i])
			}
			var mt util.MerkleTree
			mt.ComputeTree(hs)
			root := mt.GetRoot()
			if want := refRoot(ls); root != want {
				rep.Violate(fmt.Sprintf("n=%d leaves (large tree): root %s differs from the recursive reference root %s", n, root, want), map[string]any{"n": n})
				return
			}
			checked := 0
			for i := 0; i < n; i++ {
				if !(i < 70 || i >= n-70 || i%197 == 0) {
					continue
				}
				checked++
				p := mt.GetPathByIndex(i)
				if p.LeafIndex != i || !util.VerifyMerklePath(ls[i], p, root) || !mt.VerifyPath(leaf(ls[i]), p) {
					rep.Violate(fmt.Sprintf("n=%d leaves (large tree): path of leaf %d does not verify against the root", n, i), map[string]any{"n": n, "index": i})
					return
				}
				if q := mt.GetPath(leaf(ls[i])); q.LeafIndex != i || fmt.Sprint(q.Nodes) != fmt.Sprint(p.Nodes) {
					rep.Violate(fmt.Sprintf("n=%d leaves (large tree): GetPath(leaf %d) differs from GetPathByIndex", n, i), map[string]any{"n": n, "index": i})
					return
				}
				if j := (i + 1) % n; util.VerifyMerklePath(ls[j], p, root) {
					rep.Violate(fmt.Sprintf("n=%d leaves (large tree): the path of leaf %d also verifies leaf %d", n, i, j), map[string]any{"n": n, "index": i})
					return
				}
			}
			mu.Lock()
			paths += checked
			evals += 3 * checked
			total++
			mu.Unlock()
		}(n)
	}
	bwg.Wait()
	rep.Set("large_trees", big)
	rep.Set("evaluations", evals)
	rep.Set("states", total)
	rep.Set("transitions", paths)
	rep.Set("traces_validated_against_impl", paths)
	rep.Set("distinct_nontrivial", paths)
	rep.Set("negative_verifications", negatives)
	rep.Set("rule", fmt.Sprintf("every leaf count n = 1..%d with distinct 64-character leaf hashes, and n = 1..%d with leaf hash strings of uniform length 2, 62, 63, 65, 66, 96, 127, 128, 129, 200 (longer ones share their first 64 characters); every leaf index: path by index and by leaf lookup, verification by VerifyMerklePath and VerifyPath against a root that must equal an independent recursive reference root (own SHA3); the same path offered with every other leaf hash of the tree for n <= %d (structured neighbours, first/last/middle for larger n), with a foreign hash, with the sibling hash and with the root; leaf lists with repeated hashes (n = 2..70, three repetition patterns: every position's path verifies by index on the computed and the loaded tree, lookup answers for the first position); large trees (sizes in 'large_trees': root against the reference, paths of the first/last 70 and every 197th leaf); export/import via GetTree/SetTree incl. rejected wrong leaf counts, also into a tree object that was used for another tree before; loads with a wrong leaf count are rejected and leave the object (fresh, loaded, re-used) answering as before; 'states' = tree sizes, 'transitions' = (n, index) pairs", maxN, smallN, allPairs))
	rep.Sample(map[string]any{"n": 5, "index": 4, "note": "odd level: last node paired with itself"})
	rep.Sample(map[string]any{"n": 1, "index": 0})
	return rep.Finish()
}
