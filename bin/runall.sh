#!/bin/bash
# bin/runall.sh [quick|thorough] : every check once, sequentially; prints one summary line per check
tier=${1:-quick}
cd "$(dirname "$0")/.."
# RUNALL_IDS="C17 C13 ..." runs a chosen subset in the given order
for id in ${RUNALL_IDS:-$(python3 -c "import json;print(' '.join(c['property_id'] for c in json.load(open('MANIFEST.json'))['checks']))")}; do
  s=$(date +%s)
  out=$(bin/check $id $tier 2>&1); rc=$?
  echo "$id rc=$rc $(( $(date +%s) - s ))s :: $(echo "$out" | grep -v '^KNOWN-FINDING' | tail -1 | cut -c1-160)"
  echo "$out" | grep '^KNOWN-FINDING' | cut -c1-120
done
