//go:build nodump

package sc

import "github.com/0chain/common/core/statecache"

// Built when the private-state dump no longer compiles against /repo (internals
// renamed): states are then never merged and the checks fall back to a smaller depth.
const haveDump = false

func dumpSC(sc *statecache.StateCache) (string, int, int) { return "", 0, 0 }
func dumpBC(bc *statecache.BlockCache) string             { return "" }
func dumpTC(tc *statecache.TransactionCache) string       { return "" }
