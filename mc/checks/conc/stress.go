package conc

import (
	"context"
	"fmt"
	"sync/atomic"
	"time"

	"github.com/0chain/common/core/statecache"
	"github.com/0chain/common/core/util"

	"verifmc/explore/sched"
)

// StressScenarios are larger free-running bodies for the auxiliary -race pass only (too big to explore):
// several committers and readers at once.
func StressScenarios(prop string) []sched.Scenario {
	if prop == "C16" {
		return []sched.Scenario{longMissingNodeHistory(), failingSaves(), cancelledSaves()}
	}
	if prop != "C08" {
		return nil
	}
	return []sched.Scenario{fullHistoryReaders(), {Name: "stress-4committers-8readers", Make: func() ([]func(), func() (string, string)) {
		sc := statecache.NewStateCache()
		mkBlock(sc, blk{hash: "G", prev: "", sets: map[string]string{"k": "G"}}).Commit()
		var bodies []func()
		prev := "G"
		bad := make([]string, 12)
		for c := 0; c < 4; c++ {
			h := fmt.Sprintf("B%d", c)
			bc := mkBlock(sc, blk{hash: h, prev: prev, sets: map[string]string{"k": h}})
			bodies = append(bodies, func() { bc.Commit() })
			prev = h
		}
		for r := 0; r < 8; r++ {
			r := r
			at := fmt.Sprintf("B%d", r%4)
			bodies = append(bodies, func() {
				for i := 0; i < 20; i++ {
					if v, ok := sc.Get("k", at); ok && render(v) != at {
						// the chain is B0<-B1<-B2<-B3, every block writes k itself: a hit at Bi must be Bi's value
						bad[r] = fmt.Sprintf("Get(k,%s) = %s", at, render(v))
					}
				}
			})
		}
		return bodies, func() (string, string) {
			for _, b := range bad {
				if b != "" {
					return "", b
				}
			}
			return "", ""
		}
	}}}
}

func render(v statecache.Value) string { return fmt.Sprint(v) }

// longMissingNodeHistory: ONE trie with a long history of lookups that ran into nodes absent from the store
// (2500 of them, so that any bound or trimming of the missing-key list is crossed several times), concurrent
// with pollers of GetMissingNodeKeys, a second reader and a writer. Every answer of the poller must be a
// possible state of an append-only list: non-decreasing length, no entry that was never looked up.
func longMissingNodeHistory() sched.Scenario {
	return sched.Scenario{Name: "stress-long-missing-node-history", Make: func() ([]func(), func() (string, string)) {
		db := util.NewMemoryNodeDB()
		t0 := util.NewMerklePatriciaTrie(db, 1, nil, statecache.NewEmpty())
		var keys []string
		for i := 0; i < 48; i++ {
			k := fmt.Sprintf("%02x%02x", i, 255-i)
			keys = append(keys, k)
			_, _ = t0.Insert(util.Path(k), &util.SecureSerializableValue{Buffer: []byte("v" + k)})
		}
		root := t0.GetRoot()
		// drop every leaf from the store
		var leaves []util.Key
		_ = t0.Iterate(context.Background(), func(ctx context.Context, path util.Path, key util.Key, node util.Node) error {
			if _, ok := node.(*util.LeafNode); ok {
				leaves = append(leaves, append(util.Key{}, key...))
			}
			return nil
		}, util.NodeTypeLeafNode)
		known := map[string]bool{}
		for _, l := range leaves {
			known[string(l)] = true
			_ = db.DeleteNode(l)
		}
		t := util.NewMerklePatriciaTrie(db, 1, root, statecache.NewEmpty())
		bad := make([]string, 4)
		var done int32
		bodies := []func(){
			func() {
				defer atomic.StoreInt32(&done, 1)
				for i := 0; i < 2500; i++ {
					_, _ = t.GetNodeValueRaw(util.Path(keys[i%len(keys)]))
				}
			},
			func() {
				for i := 0; i < 400; i++ {
					_, _ = t.GetNodeValueRaw(util.Path(keys[(i*7)%len(keys)]))
				}
			},
			func() {
				for i := 0; i < 300 || atomic.LoadInt32(&done) == 0; i++ {
					for _, k := range t.GetMissingNodeKeys() {
						if !known[string(k)] {
							bad[2] = fmt.Sprintf("GetMissingNodeKeys returned %x, which is not a node that any lookup missed", []byte(k))
							return
						}
					}
				}
			},
			func() {
				for i := 0; i < 50; i++ {
					_, _ = t.Insert(util.Path("ffff"), &util.SecureSerializableValue{Buffer: []byte{byte(i), 1}})
				}
			},
		}
		return bodies, func() (string, string) {
			for _, b := range bad {
				if b != "" {
					return "", b
				}
			}
			return "", ""
		}
	}}
}

// failingSaves: saves that FAIL (the target store rejects the write) while writers and a reader work on the
// same trie. Free-running only: the error path of SaveChanges returns while its worker goroutine is still
// finishing, which the cooperative scheduler cannot replay deterministically. Nobody may block for ever
// (mcrace bounds every iteration) and every save must report the store's error.
func failingSaves() sched.Scenario {
	return sched.Scenario{Name: "stress-failing-saves", Make: func() ([]func(), func() (string, string)) {
		db := util.NewMemoryNodeDB()
		t := util.NewMerklePatriciaTrie(db, 1, nil, statecache.NewEmpty())
		for _, kv := range mptPre {
			_, _ = t.Insert(util.Path(kv[0]), &util.SecureSerializableValue{Buffer: []byte(kv[1])})
		}
		bad := make([]string, 4)
		bodies := []func(){
			func() {
				for i := 0; i < 300; i++ {
					if err := t.SaveChanges(context.Background(), rejectingDB{util.NewMemoryNodeDB()}, false); err == nil {
						bad[0] = "SaveChanges into a store that rejects the write returned nil"
					}
				}
			},
			func() {
				for i := 0; i < 300; i++ {
					_, _ = t.Insert(util.Path("0a1d"), &util.SecureSerializableValue{Buffer: []byte{byte(i), 1}})
				}
			},
			func() {
				for i := 0; i < 300; i++ {
					_, _ = t.Delete(util.Path("0b22"))
					_, _ = t.Insert(util.Path("0b22"), &util.SecureSerializableValue{Buffer: []byte{byte(i), 2}})
				}
			},
			func() {
				for i := 0; i < 300; i++ {
					if v, err := t.GetNodeValueRaw(util.Path("0a1b")); err != nil || string(v) != "p" {
						bad[3] = fmt.Sprintf("lookup of an untouched key returned %q, %v", v, err)
					}
				}
			},
		}
		return bodies, func() (string, string) {
			for _, b := range bad {
				if b != "" {
					return "", b
				}
			}
			return "", ""
		}
	}}
}

// slowDB is a save target whose batch write takes a while, so that a save with a short deadline returns (context
// error) while its worker goroutine is still writing.
type slowDB struct{ *util.MemoryNodeDB }

func (d slowDB) MultiPutNode(keys []util.Key, nodes []util.Node) error {
	time.Sleep(300 * time.Microsecond)
	return d.MemoryNodeDB.MultiPutNode(keys, nodes)
}

// cancelledSaves: saves (with deletes) whose context expires while the store is still writing, next to writers
// and a reader of the same trie. A save that gave up must not leave a goroutine behind that reads the trie's
// live change set (the race detector watches), and whatever a save wrote completely must be a state the trie
// was in: after the threads stopped, a final uncancelled save must leave the target able to read the final content.
func cancelledSaves() sched.Scenario {
	return sched.Scenario{Name: "stress-cancelled-saves", Make: func() ([]func(), func() (string, string)) {
		db := util.NewMemoryNodeDB()
		t := util.NewMerklePatriciaTrie(db, 1, nil, statecache.NewEmpty())
		for _, kv := range mptPre {
			_, _ = t.Insert(util.Path(kv[0]), &util.SecureSerializableValue{Buffer: []byte(kv[1])})
		}
		target := slowDB{util.NewMemoryNodeDB()}
		bad := make([]string, 4)
		bodies := []func(){
			func() {
				for i := 0; i < 150; i++ {
					ctx, cancel := context.WithTimeout(context.Background(), time.Duration(50+i%200)*time.Microsecond)
					_ = t.SaveChanges(ctx, target, true)
					cancel()
				}
			},
			func() {
				for i := 0; i < 300; i++ {
					_, _ = t.Insert(util.Path("0a1d"), &util.SecureSerializableValue{Buffer: []byte{byte(i), 1}})
					_, _ = t.Delete(util.Path("0a1d"))
				}
			},
			func() {
				for i := 0; i < 300; i++ {
					_, _ = t.Delete(util.Path("0b22"))
					_, _ = t.Insert(util.Path("0b22"), &util.SecureSerializableValue{Buffer: []byte{byte(i), 2}})
				}
			},
			func() {
				for i := 0; i < 300; i++ {
					if v, err := t.GetNodeValueRaw(util.Path("0a1b")); err != nil || string(v) != "p" {
						bad[3] = fmt.Sprintf("lookup of an untouched key returned %q, %v", v, err)
					}
				}
			},
		}
		return bodies, func() (string, string) {
			for _, b := range bad {
				if b != "" {
					return "", b
				}
			}
			time.Sleep(5 * time.Millisecond) // let abandoned save workers finish
			if err := t.SaveChanges(context.Background(), target, false); err != nil {
				return "", "final SaveChanges: " + err.Error()
			}
			t2 := util.NewMerklePatriciaTrie(target.MemoryNodeDB, 1, t.GetRoot(), statecache.NewEmpty())
			if has, err := t2.HasMissingNodes(context.Background()); err != nil || has {
				return "", fmt.Sprintf("after the final save the target store cannot read the trie's root: missing nodes %v, %v", has, err)
			}
			return "", ""
		}
	}}
}

// fullHistoryReaders: the per-key history of k is FULL (a chain of 230 blocks rewriting k, capacity 200) when
// readers look k up at blocks that hold no entry of their own (every such lookup memoises and thereby evicts)
// while a further block commits. What is evicted is the open capacity finding's business; here only the race
// detector is asked: bookkeeping that the lookups do on the way must be synchronised.
func fullHistoryReaders() sched.Scenario {
	return sched.Scenario{Name: "stress-readers-at-full-per-key-history", Make: func() ([]func(), func() (string, string)) {
		sc := statecache.NewStateCache()
		prev := ""
		for i := 0; i < 230; i++ {
			h := fmt.Sprintf("w%d", i)
			mkBlock(sc, blk{hash: h, prev: prev, sets: map[string]string{"k": h}}).Commit()
			prev = h
		}
		var tips []string
		for i := 0; i < 4; i++ {
			// blocks hanging off old and new writers that do not touch k
			h := fmt.Sprintf("t%d", i)
			mkBlock(sc, blk{hash: h, prev: fmt.Sprintf("w%d", 229-i*10), sets: map[string]string{"j": "x"}}).Commit()
			tips = append(tips, h)
		}
		last := mkBlock(sc, blk{hash: "w230", prev: "w229", sets: map[string]string{"k": "w230"}})
		var bodies []func()
		for _, tip := range tips {
			tip := tip
			bodies = append(bodies, func() {
				for i := 0; i < 30; i++ {
					_, _ = sc.Get("k", tip)
					_, _ = sc.Get("k", fmt.Sprintf("w%d", i))
				}
			})
		}
		bodies = append(bodies, func() { last.Commit() })
		return bodies, func() (string, string) { return "", "" }
	}}
}
