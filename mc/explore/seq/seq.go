// Package seq is engine E1: explicit-state breadth-first exploration of
// operation histories over the real implementation.
//
// A state is the history that reaches it. A successor is produced by building a
// fresh instance, replaying the history and applying one more operation; live
// objects are never cloned. Deduplication uses a canonical key returned by the
// harness (reference-model state + implementation fingerprint). Levels are
// merged in canonical history order, so the search is deterministic whatever
// the number of workers and the first counterexample is a shortest one.
package seq

import (
	"crypto/sha256"
	"fmt"
	"os"
	"strconv"
	"sync"
	"sync/atomic"
	"time"

	"verifmc/rt"
)

type Verdict uint8

const (
	OK Verdict = iota
	Violation
	Known // failure attributed to an open known finding; branch is cut
)

// Outcome of running one history (all ops replayed, last one judged).
type Outcome struct {
	Key     string // canonical state key after the last op; "" = never merge
	Verdict Verdict
	Finding string // id when Verdict == Known
	Msg     string
	Cut     bool // do not extend this history (e.g. terminal state)
}

type Config struct {
	Name      string
	NOps      int
	OpName    func(op int) string
	Enabled   func(hist []uint8, op int) bool // optional static pruning of the alphabet
	MaxDepth  int
	Workers   int
	Deadline  time.Time // zero = none; checked between chunks
	MaxStates int       // 0 = none; stops extending when reached (reported as cap)
	Run       func(hist []uint8) Outcome
	// Lasso only: fixed stems (instead of all stems up to the given length), the operations cycles are built
	// from (nil = all), and a tail appended to the history before it is judged (e.g. "merge the child")
	Stems    [][]uint8
	CycleOps []uint8
	Tail     []uint8
}

type Fail struct {
	Hist []string
	Raw  []uint8
	Msg  string
}

type KnownStat struct {
	Count   int
	Witness []string
	Msg     string
}

type Stats struct {
	Name           string                `json:"name"`
	States         int                   `json:"states"`
	Transitions    int                   `json:"transitions"`
	DepthCompleted int                   `json:"depth_completed"`
	MaxDepth       int                   `json:"max_depth"`
	Closed         bool                  `json:"closed"` // frontier became empty: whole reachable space explored
	Exhaustive     bool                  `json:"exhaustive"`
	Cap            string                `json:"cap,omitempty"`
	PerDepth       []int                 `json:"new_states_per_depth"`
	Violations     []Fail                `json:"-"`
	NViolations    int                   `json:"violations"`
	Known          map[string]*KnownStat `json:"-"`
	KnownCut       int                   `json:"branches_cut_by_known_findings"`
	Samples        [][]string            `json:"-"`
	WallS          float64               `json:"wall_s"`
}

type res struct {
	key     [16]byte
	hasKey  bool
	verdict Verdict
	cut     bool
	finding string
	msg     string
}

func (c *Config) names(h []uint8) []string {
	out := make([]string, len(h))
	for i, o := range h {
		out[i] = c.OpName(int(o))
	}
	return out
}

// Explore runs the BFS. It never panics on harness Run panics: Run must recover itself.
func Explore(c Config) *Stats {
	st := &Stats{Name: c.Name, MaxDepth: c.MaxDepth, Known: map[string]*KnownStat{}, Exhaustive: true}
	t0 := time.Now()
	if rp := rt.Replay; rp != nil {
		// replay mode: only the recorded history of the named sub-run, twice (must agree)
		if rp.Run != c.Name {
			return st
		}
		rt.SlotSet(0, c.Name, rp.Ops)
		o1, o2 := safeRun(c.Run, rp.Ops), safeRun(c.Run, rp.Ops)
		if n, err := strconv.Atoi(os.Getenv("VERIF_REPLAY_REPEAT")); err == nil && n > 0 {
			// timing-dependent failures (goroutines the code under test starts itself): repeat until one shows
			for i := 0; i < n && o1.Verdict == OK && o2.Verdict == OK; i++ {
				o1 = safeRun(c.Run, rp.Ops)
				o2 = o1
			}
		}
		rt.SlotClear(0)
		fmt.Printf("REPLAY %s %v\n", c.Name, c.names(rp.Ops))
		if o1.Verdict != o2.Verdict || o1.Msg != o2.Msg {
			rt.HarnessError("replay of %v is not deterministic: %q vs %q", c.names(rp.Ops), o1.Msg, o2.Msg)
		}
		st.States, st.Transitions = 1, 1
		switch o1.Verdict {
		case Violation:
			st.NViolations = 1
			st.Violations = []Fail{{Hist: c.names(rp.Ops), Raw: rp.Ops, Msg: o1.Msg}}
		case Known:
			st.Known[o1.Finding] = &KnownStat{Count: 1, Witness: c.names(rp.Ops), Msg: o1.Msg}
		}
		return st
	}
	if c.Workers <= 0 {
		c.Workers = 1
	}
	seen := map[[16]byte]struct{}{}
	// initial state
	init := safeRun(c.Run, nil)
	st.States = 1
	if init.Verdict == Violation {
		st.Violations = append(st.Violations, Fail{Msg: init.Msg})
		st.NViolations++
	}
	if init.Key != "" {
		seen[hkey(init.Key)] = struct{}{}
	}
	frontier := [][]uint8{{}}
	const chunkStates = 4096
	for depth := 1; depth <= c.MaxDepth && len(frontier) > 0; depth++ {
		var next [][]uint8
		newStates := 0
		capped := false
		for lo := 0; lo < len(frontier) && !capped; lo += chunkStates {
			hi := lo + chunkStates
			if hi > len(frontier) {
				hi = len(frontier)
			}
			chunk := frontier[lo:hi]
			results := make([]res, len(chunk)*c.NOps)
			ran := make([]bool, len(chunk)*c.NOps)
			var idx int64 = -1
			var wg sync.WaitGroup
			for w := 0; w < c.Workers; w++ {
				wg.Add(1)
				go func() {
					defer wg.Done()
					buf := make([]uint8, 0, depth)
					slot := rt.NewSlot()
					defer rt.SlotClear(slot)
					for {
						i := int(atomic.AddInt64(&idx, 1))
						if i >= len(results) {
							return
						}
						h := chunk[i/c.NOps]
						op := i % c.NOps
						if c.Enabled != nil && !c.Enabled(h, op) {
							continue
						}
						buf = append(append(buf[:0], h...), uint8(op))
						rt.SlotSet(slot, c.Name, buf) // in-flight note for the supervisor (see rt/slots.go)
						o := safeRun(c.Run, buf)
						rt.SlotClear(slot)
						r := res{verdict: o.Verdict, cut: o.Cut, finding: o.Finding, msg: o.Msg}
						if o.Key != "" {
							r.key, r.hasKey = hkey(o.Key), true
						}
						results[i] = r
						ran[i] = true
					}
				}()
			}
			wg.Wait()
			for i, r := range results {
				if !ran[i] {
					continue
				}
				st.Transitions++
				h := chunk[i/c.NOps]
				nh := append(append(make([]uint8, 0, len(h)+1), h...), uint8(i%c.NOps))
				switch r.verdict {
				case Violation:
					st.NViolations++
					if len(st.Violations) < 20 {
						st.Violations = append(st.Violations, Fail{Hist: c.names(nh), Raw: nh, Msg: r.msg})
					}
					continue
				case Known:
					k := st.Known[r.finding]
					if k == nil {
						k = &KnownStat{Witness: c.names(nh), Msg: r.msg}
						st.Known[r.finding] = k
					}
					k.Count++
					st.KnownCut++
					continue
				}
				if r.hasKey {
					if _, dup := seen[r.key]; dup {
						continue
					}
					seen[r.key] = struct{}{}
				}
				st.States++
				newStates++
				if len(st.Samples) < 6 && (st.States%97 == 3 || depth == c.MaxDepth) {
					st.Samples = append(st.Samples, c.names(nh))
				}
				if !r.cut {
					next = append(next, nh)
				}
			}
			if !c.Deadline.IsZero() && time.Now().After(c.Deadline) && hi < len(frontier) {
				capped = true
				st.Cap = fmt.Sprintf("time budget reached inside depth %d (%d of %d frontier states expanded)", depth, hi, len(frontier))
			}
			if c.MaxStates > 0 && st.States >= c.MaxStates && hi < len(frontier) {
				capped = true
				st.Cap = fmt.Sprintf("state cap %d reached inside depth %d", c.MaxStates, depth)
			}
		}
		st.PerDepth = append(st.PerDepth, newStates)
		if capped {
			st.Exhaustive = false
			break
		}
		st.DepthCompleted = depth
		frontier = next
		if st.NViolations > 0 {
			break // shortest counterexamples found; deeper levels add nothing
		}
		if !c.Deadline.IsZero() && time.Now().After(c.Deadline) && depth < c.MaxDepth && len(frontier) > 0 {
			st.Exhaustive = false
			st.Cap = fmt.Sprintf("time budget reached after depth %d", depth)
			break
		}
	}
	if len(frontier) == 0 && st.Exhaustive {
		st.Closed = true
	}
	st.WallS = time.Since(t0).Seconds()
	return st
}

// safeRun converts a panic that escapes the harness (the harnesses recover around every call into the
// code under test; this is the net below them) into a violation instead of a crash of the explorer.
func safeRun(run func([]uint8) Outcome, h []uint8) (o Outcome) {
	defer func() {
		if r := recover(); r != nil {
			o = Outcome{Verdict: Violation, Msg: fmt.Sprintf("panic: %v", r)}
		}
	}()
	return run(h)
}

func hkey(s string) (k [16]byte) {
	h := sha256.Sum256([]byte(s))
	copy(k[:], h[:16])
	return
}

// Lasso explores "lasso-shaped" histories: every stem of at most StemLen operations followed by every
// cycle of 1..CycleLen operations repeated up to Repeats times, all on ONE instance (the history is
// replayed as a whole, no state merging: hidden state that accumulates over many uses - counters,
// lists that are trimmed, flags that flip on the n-th use - is exactly what merging on a canonical
// key would hide). Run is called after every completed repetition. Enabled is consulted for every
// operation of the growing history; a cycle that becomes disabled ends there.
type LassoStats struct {
	Name       string                `json:"name"`
	Lassos     int                   `json:"lassos"`
	Runs       int                   `json:"runs"`
	MaxLen     int                   `json:"longest_history"`
	Violations []Fail                `json:"-"`
	Known      map[string]*KnownStat `json:"-"`
	Exhaustive bool                  `json:"exhaustive"`
	Cap        string                `json:"cap,omitempty"`
}

func Lasso(c Config, stemLen, cycleLen, repeats int) *LassoStats {
	st := &LassoStats{Name: c.Name, Exhaustive: true, Known: map[string]*KnownStat{}}
	if rp := rt.Replay; rp != nil {
		if rp.Run != c.Name {
			return st
		}
		rt.SlotSet(0, c.Name, rp.Ops)
		o1, o2 := safeRun(c.Run, rp.Ops), safeRun(c.Run, rp.Ops)
		rt.SlotClear(0)
		fmt.Printf("REPLAY %s %v\n", c.Name, c.names(rp.Ops))
		if o1.Verdict != o2.Verdict || o1.Msg != o2.Msg {
			rt.HarnessError("replay of %v is not deterministic: %q vs %q", c.names(rp.Ops), o1.Msg, o2.Msg)
		}
		if o1.Verdict == Violation {
			st.Violations = []Fail{{Hist: c.names(rp.Ops), Raw: rp.Ops, Msg: o1.Msg}}
		}
		return st
	}
	if c.Workers <= 0 {
		c.Workers = 1
	}
	enabledSeq := func(prefix, ops []uint8) bool {
		h := append([]uint8{}, prefix...)
		for _, o := range ops {
			if c.Enabled != nil && !c.Enabled(h, int(o)) {
				return false
			}
			h = append(h, o)
		}
		return true
	}
	// all sequences of length 0..n over the alphabet
	var seqs func(n int) [][]uint8
	seqs = func(n int) [][]uint8 {
		out := [][]uint8{{}}
		level := [][]uint8{{}}
		for l := 1; l <= n; l++ {
			var next [][]uint8
			for _, p := range level {
				for o := 0; o < c.NOps; o++ {
					next = append(next, append(append([]uint8{}, p...), uint8(o)))
				}
			}
			out = append(out, next...)
			level = next
		}
		return out
	}
	type lasso struct{ stem, cycle []uint8 }
	var work []lasso
	stems := c.Stems
	if stems == nil {
		stems = seqs(stemLen)
	}
	cycles := seqs(cycleLen)
	if c.CycleOps != nil {
		allowed := map[uint8]bool{}
		for _, o := range c.CycleOps {
			allowed[o] = true
		}
		var f [][]uint8
		for _, cy := range cycles {
			ok := true
			for _, o := range cy {
				if !allowed[o] {
					ok = false
				}
			}
			if ok {
				f = append(f, cy)
			}
		}
		cycles = f
	}
	for _, stem := range stems {
		if !enabledSeq(nil, stem) {
			continue
		}
		for _, cyc := range cycles {
			if len(cyc) == 0 || !enabledSeq(stem, cyc) {
				continue
			}
			work = append(work, lasso{stem, cyc})
		}
	}
	var idx int64 = -1
	var mu sync.Mutex
	var wg sync.WaitGroup
	reported := map[string]bool{}
	for w := 0; w < c.Workers; w++ {
		wg.Add(1)
		go func() {
			defer wg.Done()
			slot := rt.NewSlot()
			defer rt.SlotClear(slot)
			for {
				i := int(atomic.AddInt64(&idx, 1))
				if i >= len(work) {
					return
				}
				if !c.Deadline.IsZero() && time.Now().After(c.Deadline) {
					mu.Lock()
					st.Exhaustive = false
					st.Cap = fmt.Sprintf("time budget reached after %d of %d lassos", i, len(work))
					mu.Unlock()
					return
				}
				l := work[i]
				h := append([]uint8{}, l.stem...)
				runs, maxLen := 0, 0
				for r := 0; r < repeats; r++ {
					if !enabledSeq(h, l.cycle) {
						break
					}
					h = append(h, l.cycle...)
					judged := h
					if len(c.Tail) > 0 {
						if !enabledSeq(h, c.Tail) {
							continue
						}
						judged = append(append([]uint8{}, h...), c.Tail...)
					}
					rt.SlotSet(slot, c.Name, judged)
					o := safeRun(c.Run, judged)
					rt.SlotClear(slot)
					runs++
					maxLen = len(h)
					if o.Verdict == OK {
						if o.Cut {
							break
						}
						continue
					}
					mu.Lock()
					if o.Verdict == Known {
						k := st.Known[o.Finding]
						if k == nil {
							k = &KnownStat{Witness: c.names(judged), Msg: o.Msg}
							st.Known[o.Finding] = k
						}
						k.Count++
					} else {
						key := o.Msg
						if len(key) > 40 {
							key = key[:40]
						}
						if !reported[key] && len(st.Violations) < 10 {
							reported[key] = true
							st.Violations = append(st.Violations, Fail{Hist: c.names(judged), Raw: append([]uint8{}, judged...), Msg: fmt.Sprintf("(stem %v, cycle %v repeated %d times) %s", c.names(l.stem), c.names(l.cycle), r+1, o.Msg)})
						}
					}
					mu.Unlock()
					break
				}
				mu.Lock()
				st.Lassos++
				st.Runs += runs
				if maxLen > st.MaxLen {
					st.MaxLen = maxLen
				}
				mu.Unlock()
			}
		}()
	}
	wg.Wait()
	return st
}
