package wm

import (
	"fmt"
	"os"
	"time"

	"verifmc/dev"
	"verifmc/explore/seq"
	"verifmc/rt"
)

type cfg struct {
	name     string
	shared   Shared
	keys     []int
	vals     []string
	levels   []int
	gc       bool
	reload   bool
	rootOp   bool
	depth    int
	c11      bool  // recovery + crash oracles
	c13      bool  // checkpoint / rollback ops and oracle
	maxNoDup int   // depth used when the dump is unavailable
	alt      bool  // mutate through Put / Delete instead of Update
	snap     []int // collapse levels of the snapshot op (CopyRoot); enables updates/deletes through the snapshot
}

func (c cfg) ops() []Op {
	var ops []Op
	for _, k := range c.keys {
		for _, v := range c.vals {
			ops = append(ops, Op{K: 'U', Key: k, Val: v})
		}
		ops = append(ops, Op{K: 'X', Key: k})
	}
	for _, l := range c.levels {
		ops = append(ops, Op{K: 'C', Level: l})
	}
	if c.gc {
		ops = append(ops, Op{K: 'G'})
	}
	if c.reload {
		ops = append(ops, Op{K: 'L'})
	}
	if c.rootOp {
		ops = append(ops, Op{K: 'R'})
	}
	if c.c13 {
		ops = append(ops, Op{K: 'P'}, Op{K: 'B'}, Op{K: 'T'})
	}
	for _, l := range c.snap {
		ops = append(ops, Op{K: 'Y', Level: l})
	}
	if len(c.snap) > 0 {
		ops = append(ops, Op{K: 'V', Key: c.keys[0], Val: c.vals[len(c.vals)-1]}, Op{K: 'W', Key: c.keys[0]}, Op{K: 'V', Key: c.keys[len(c.keys)-1], Val: c.vals[0]})
	}
	return ops
}

func build(sh Shared, ops []Op, h []uint8, alt ...bool) (*World, string, bool) {
	w := NewWorld(sh)
	w.Alt = len(alt) > 0 && alt[0]
	for i, x := range h {
		f := w.Apply(ops[x])
		if rt.Replay != nil && os.Getenv("VERIF_TRACE") != "" {
			fmt.Printf("  %-34s %s | store %d keys\n", ops[x], dumpTrie(w.T), len(w.S.Keys()))
		}
		if f != "" {
			return w, f, i != len(h)-1
		}
	}
	return w, "", false
}

// recoverable: a trie reopened from just (root, weight) on storage s equals the model.
func recoverable(s *dev.Store, c commitPoint, when string) string {
	if f := Observe(Reopened(s, c.root, c.weight), c.m, true); f != "" {
		return fmt.Sprintf("%s: trie reopened from root %x / weight %d: %s", when, c.root[:6], c.weight, f)
	}
	return ""
}

func runCfg(rep *rt.Report, c cfg, deadline time.Time, classify func(w *World, last Op, f string) seq.Outcome) {
	ops := c.ops()
	depth := c.depth
	if !haveDump && c.maxNoDup > 0 && c.maxNoDup < depth {
		depth = c.maxNoDup
	}
	sc := seq.Config{
		Name: c.name, NOps: len(ops), MaxDepth: depth, Workers: rt.Workers(), Deadline: deadline,
		OpName: func(i int) string { return ops[i].String() },
		Enabled: func(h []uint8, op int) bool {
			k := ops[op].K
			if k == 'Y' || k == 'V' || k == 'W' {
				// one snapshot per history, taken when hashes are current (right after a commit); it is written to afterwards only
				pending, commits, snap := false, 0, false
				for _, x := range h {
					switch ops[x].K {
					case 'U', 'X':
						pending = true
					case 'C':
						pending = false
						commits++
					case 'Y':
						snap = true
					}
				}
				if k == 'Y' {
					return !snap && !pending && commits >= 1
				}
				return snap
			}
			if k != 'L' && k != 'P' && k != 'B' && k != 'T' {
				return true
			}
			// reload / checkpoint / rollback only when nothing is pending since the last commit
			pending, commits, chk, since, rolled, gcAfter := false, 0, false, 0, false, 0
			for _, x := range h {
				switch ops[x].K {
				case 'U', 'X':
					pending = true
				case 'C':
					pending = false
					commits++
					since++
					gcAfter = 0
				case 'G':
					gcAfter++
				case 'P':
					chk, since = true, 0
				case 'B', 'T':
					rolled = true
				}
			}
			switch k {
			case 'L':
				return !pending && !chk
			case 'P':
				return !pending && commits >= 1 && !chk
			default:
				return chk && since == 1 && !pending && !rolled && gcAfter <= 1 // at most one intervening GC pass
			}
		},
		Run: func(h []uint8) seq.Outcome {
			w, f, prefixFailed := build(c.shared, ops, h, c.alt)
			var last Op
			if len(h) > 0 {
				last = ops[h[len(h)-1]]
			}
			if f != "" {
				if prefixFailed {
					return seq.Outcome{Verdict: seq.Violation, Msg: "non-deterministic replay: prefix failed: " + f}
				}
				return classify(w, last, f)
			}
			key := w.Key()
			if c.c11 || c.c13 {
				if f := c11Oracle(w, last); f != "" {
					return classify(w, last, f)
				}
			}
			if c.c13 && (last.K == 'B' || last.K == 'T') {
				if f := c13Oracle(w, last); f != "" {
					return classify(w, last, f)
				}
			}
			if f := Observe(w.T, w.M, !c.c11); f != "" {
				return classify(w, last, f)
			}
			if w.Snap != nil {
				if f := Observe(w.Snap, w.SnapM, true); f != "" {
					return classify(w, last, "the snapshot taken with CopyRoot (content {"+modelKey(w.SnapM)+"}): "+f)
				}
			}
			return seq.Outcome{Key: key}
		},
	}
	st := seq.Explore(sc)
	rep.Add("states", st.States)
	rep.Add("transitions", st.Transitions)
	rep.Add("traces_validated_against_impl", st.Transitions)
	rep.Add("evaluations", st.Transitions)
	rep.Add("distinct_nontrivial", st.States)
	rep.Sub[st.Name] = map[string]any{"keys": c.keys, "values": c.vals, "shared_values": bool(c.shared), "collapse_levels": c.levels, "gc": c.gc, "reload": c.reload, "root_op": c.rootOp, "stats": st}
	for _, s := range st.Samples {
		rep.Sample(map[string]any{"run": st.Name, "history": s})
	}
	if !st.Exhaustive {
		rep.NotExhaustive(st.Name + ": " + st.Cap)
	}
	for id, k := range st.Known {
		for i := 0; i < k.Count; i++ {
			rep.KnownHit(id, fmt.Sprint(k.Witness), k.Msg)
		}
	}
	for _, v := range st.Violations {
		rep.Violate(fmt.Sprintf("[%s] %v => %s", st.Name, v.Hist, v.Msg), map[string]any{"run": st.Name, "history": v.Hist, "ops": v.Raw})
	}
}

func plainClassify(w *World, last Op, f string) seq.Outcome {
	return seq.Outcome{Verdict: seq.Violation, Msg: f}
}

// C09: weight, block ownership and root follow content.
func C09(tier rt.Tier) int {
	rep := rt.NewReport("C09", tier)
	var runs []cfg
	per := 30 * time.Second
	if tier == rt.Quick {
		runs = []cfg{
			{name: "6keys-mem+commit", keys: []int{0, 1, 2, 3, 4, 5}, vals: []string{"a", "b"}, levels: []int{0, 2, 64}, gc: true, reload: true, rootOp: true, depth: 4, maxNoDup: 3},
			{name: "3keys-deep", keys: []int{0, 1, 2}, vals: []string{"a", "b", "c"}, levels: []int{0, 1, 3}, gc: true, reload: true, rootOp: true, depth: 6, maxNoDup: 4},
			// the other exported mutators
			{name: "3keys-put-delete", keys: []int{0, 1, 4}, vals: []string{"a", "b"}, levels: []int{0, 2}, gc: true, reload: true, alt: true, depth: 5, maxNoDup: 4},
			// a snapshot of the committed trie is a trie of its own: source and snapshot are then changed independently
			{name: "snapshot-3keys", keys: []int{0, 1, 4}, vals: []string{"a", "b"}, levels: []int{0, 64}, snap: []int{0, 1, 64}, depth: 6, maxNoDup: 4},
		}
	} else {
		per = 8 * time.Minute
		runs = []cfg{
			{name: "6keys-mem+commit", keys: []int{0, 1, 2, 3, 4, 5}, vals: []string{"a", "b"}, levels: []int{0, 1, 2, 3, 64}, gc: true, reload: true, rootOp: true, depth: 6, maxNoDup: 4},
			{name: "3keys-deep", keys: []int{0, 1, 2}, vals: []string{"a", "b", "c"}, levels: []int{0, 1, 2, 3, 64}, gc: true, reload: true, rootOp: true, depth: 9, maxNoDup: 5},
			{name: "4keys-put-delete", keys: []int{0, 1, 2, 4}, vals: []string{"a", "b"}, levels: []int{0, 1, 64}, gc: true, reload: true, alt: true, depth: 7, maxNoDup: 5},
			{name: "snapshot-4keys", keys: []int{0, 1, 2, 4}, vals: []string{"a", "b"}, levels: []int{0, 1, 64}, snap: []int{0, 1, 2, 64}, depth: 8, maxNoDup: 5},
		}
	}
	for _, c := range runs {
		runCfg(rep, c, time.Now().Add(per), plainClassify)
	}
	rep.Set("dedup", haveDump)
	rep.Set("rule", "BFS over all histories of {Update(k,v,weight(v)), delete (in the put-delete runs through Put and Delete, whose reported released weight is judged), Commit(level)+batch.Commit for the listed collapse levels, DeleteNodes, reload from (root hash, weight), Root(), and in the snapshot runs: snapshot = New(CopyRoot(level)) of the committed trie, updates/deletes through the snapshot} over 32-byte keys sharing prefixes of 63/3/2/1/0 nibbles; after every operation on a throw-away replay: Weight() = sum of live weights, Root() = independent root, for EVERY block 1..W GetBlockProof returns the cumulative-weight owner and the proof verifies to (root, owner's value); delete of an absent key must return ErrNotFound; a snapshot is judged like the trie itself against the content it was taken with plus its own later writes; states merged on model + dumped trie structure (dirty/collapsed flags, GC sets) + storage keys")
	rep.Assumption("storage is an in-memory StorageAdapter with atomic batches; Pebble itself is not under test")
	return rep.Finish()
}
