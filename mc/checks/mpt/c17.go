package mpt

import (
	"bytes"
	"context"
	"encoding/hex"
	"fmt"
	"sort"
	"strings"
	"sync"
	"sync/atomic"

	"github.com/0chain/common/core/statecache"
	"github.com/0chain/common/core/util"

	"verifmc/model"
	"verifmc/rt"
)

// ---- C17: missing-node detection is exact and sync repair restores the trie

// donorDB is a NodeDB whose iteration order the harness chooses; MergeDB only iterates it.
type donorDB struct {
	util.MemoryNodeDB
	keys  []util.Key
	nodes []util.Node
	order []int
}

func (d *donorDB) Iterate(ctx context.Context, h util.NodeDBIteratorHandler) error {
	for _, i := range d.order {
		if err := h(ctx, d.keys[i], d.nodes[i]); err != nil {
			return err
		}
	}
	return nil
}

func (d *donorDB) fingerprint() string {
	var fs []string
	for i := range d.keys {
		fs = append(fs, fmt.Sprintf("%x=%x/%x", []byte(d.keys[i]), d.nodes[i].Encode(), d.nodes[i].GetHashBytes()))
	}
	sort.Strings(fs)
	return strings.Join(fs, ";")
}

// failDB is a memory store whose n-th PutNode (counted from arming) fails, as a full disk would.
type failDB struct {
	*util.MemoryNodeDB
	failAt int // -1 = never
	puts   int
}

var errInjectedPut = fmt.Errorf("injected store write failure")

func (f *failDB) PutNode(key util.Key, node util.Node) error {
	if f.failAt >= 0 {
		if f.puts == f.failAt {
			f.puts++
			return errInjectedPut
		}
		f.puts++
	}
	return f.MemoryNodeDB.PutNode(key, node)
}

func perms(n, cap int) [][]int {
	if n == 0 {
		return [][]int{{}}
	}
	if n <= cap {
		var out [][]int
		var rec func(cur []int, used int)
		rec = func(cur []int, used int) {
			if len(cur) == n {
				out = append(out, append([]int{}, cur...))
				return
			}
			for i := 0; i < n; i++ {
				if used&(1<<i) == 0 {
					rec(append(cur, i), used|1<<i)
				}
			}
		}
		rec(nil, 0)
		return out
	}
	// rotations and their reversals
	var out [][]int
	for r := 0; r < n; r++ {
		p := make([]int, n)
		q := make([]int, n)
		for i := 0; i < n; i++ {
			p[i] = (i + r) % n
			q[n-1-i] = p[i]
		}
		out = append(out, p, q)
	}
	return out
}

type canonInfo struct {
	nodes  []*model.MPTNode // all nodes, root first
	parent map[string]string
}

func walkCanon(root *model.MPTNode) canonInfo {
	ci := canonInfo{parent: map[string]string{}}
	var rec func(n *model.MPTNode, parent string)
	rec = func(n *model.MPTNode, parent string) {
		if n == nil {
			return
		}
		ci.nodes = append(ci.nodes, n)
		ci.parent[string(n.Hash())] = parent
		if n.Kind == 'E' {
			rec(n.Child, string(n.Hash()))
		}
		for _, c := range n.Children {
			rec(c, string(n.Hash()))
		}
	}
	rec(root, "")
	return ci
}

// crossed lists the node hashes a lookup of path p visits in the canonical trie.
func crossed(root *model.MPTNode, p string) [][]byte {
	var out [][]byte
	n, r := root, p
	for n != nil {
		out = append(out, n.Hash())
		switch n.Kind {
		case 'L':
			return out
		case 'F':
			if r == "" {
				return out
			}
			idx := strings.IndexByte("0123456789abcdef", r[0])
			n, r = n.Children[idx], r[1:]
		case 'E':
			if !strings.HasPrefix(r, n.Path) {
				return out
			}
			n, r = n.Child, r[len(n.Path):]
		}
	}
	return out
}

func C17(tier rt.Tier) int {
	rep := rt.NewReport("C17", tier)
	paths := []string{"", "aa", "ab", "aaaa", "0a1b", "0a1c", "0b22"}
	maxKeys, permCap := 3, 3
	wideCap := 2 // removal sets of tries with more than nine non-root nodes: at most this many nodes
	if tier == rt.Thorough {
		maxKeys, permCap, wideCap = 4, 4, 3
	}
	if rt.SubRun {
		// BatchSize = 2: a donor of more than two nodes crosses the batching threshold of the store layer
		permCap = 2
	}
	// contents: every subset of <= maxKeys paths
	var contentsList [][]string
	var rec func(start int, cur []string)
	rec = func(start int, cur []string) {
		if len(cur) > 0 {
			contentsList = append(contentsList, append([]string{}, cur...))
		}
		if len(cur) == maxKeys {
			return
		}
		for i := start; i < len(paths); i++ {
			rec(i+1, append(cur, paths[i]))
		}
	}
	rec(0, nil)
	// wide branches (the subsets above never give a branch more than three children): 4, 5 (+ a value on the
	// branch), 16 children at the root, and a 4-children branch below a 2-children root
	var w16 []string
	for _, c := range "0123456789abcdef" {
		w16 = append(w16, string(c)+"a")
	}
	contentsList = append(contentsList,
		[]string{"0a", "1a", "2a", "3a"},
		[]string{"", "0a", "1a", "2a", "3a", "4a"},
		[]string{"a0", "a1", "a2", "a3", "b0"},
		[]string{"0a0a", "0a1a", "0a2a", "0a3a", "0a4a", "0b"},
		w16)
	var cases, lookups, repairs int64
	var mu sync.Mutex
	reported := map[string]bool{}
	violate := func(key, msg string, replay map[string]any) {
		mu.Lock()
		defer mu.Unlock()
		if !reported[key] {
			reported[key] = true
			rep.Violate(msg, replay)
		} else {
			rep.Add("violations_suppressed_duplicates", 1)
		}
	}
	knownHit := func(id, witness, sym string) { rep.KnownHit(id, witness, sym) }
	work := make(chan []string, len(contentsList))
	for _, c := range contentsList {
		work <- c
	}
	close(work)
	var wg sync.WaitGroup
	for w := 0; w < rt.Workers(); w++ {
		wg.Add(1)
		go func() {
			defer wg.Done()
			slot := rt.NewSlot()
			defer rt.SlotClear(slot)
			for keys := range work {
				content := map[string][]byte{}
				mdl := map[string]string{}
				for _, k := range keys {
					content[k] = []byte("v" + k)
					mdl[k] = "v" + k
				}
				paths := unionPaths(paths, keys) // lookups: the standard paths and the content's own
				// the version the nodes are created at: 1, and for the small contents also 0 (the zero value of a version)
				origins := []int64{1}
				if len(keys) <= 2 {
					origins = append(origins, 0)
				}
				for _, origin := range origins {
					canon := model.CanonicalMPT(content, origin)
					ci := walkCanon(canon)
					nonRoot := ci.nodes[1:]
					limit := 1 << len(nonRoot)
					for mask := 0; mask < limit; mask++ {
						if len(nonRoot) > 9 && popcount(mask) > wideCap {
							continue
						}
						removed := map[string]bool{}
						var remList []*model.MPTNode
						for i, n := range nonRoot {
							if mask&(1<<i) != 0 {
								removed[string(n.Hash())] = true
								remList = append(remList, n)
							}
						}
						for _, tver := range []int64{origin, origin + 4} {
							for _, order := range perms(len(remList), permCap) {
								atomic.AddInt64(&cases, 1)
								desc := fmt.Sprintf("content %q, removed nodes %s, trie version %d (nodes created at %d), donor order %v", keys, nodeNames(remList), tver, origin, order)
								replay := map[string]any{"content": keys, "removed_mask": mask, "trie_version": tver, "order": order, "origin": origin}
								if rp := rt.Replay; rp != nil && rp.Raw["content"] != nil && (fmt.Sprint(rp.Raw["content"], rp.Raw["removed_mask"], rp.Raw["trie_version"], rp.Raw["order"]) != fmt.Sprint(keys, mask, tver, order) || (rp.Raw["origin"] != nil && fmt.Sprint(rp.Raw["origin"]) != fmt.Sprint(origin)) || (rp.Raw["origin"] == nil && origin != 1)) {
									continue // replay of one recorded case
								}
								rt.SlotSetJSON(slot, replay) // in-flight note for the supervisor (a damaged store can send a walk into unbounded recursion)
								func() {
									defer func() {
										if r := recover(); r != nil {
											violate("panic", desc+": panic: "+fmt.Sprint(r), replay)
										}
									}()
									// build the full trie at the origin version, then drop the chosen nodes
									db := util.NewMemoryNodeDB()
									t1 := util.NewMerklePatriciaTrie(db, util.Sequence(origin), nil, statecache.NewEmpty())
									for _, k := range keys {
										if _, err := t1.Insert(util.Path(k), val(mdl[k])); err != nil {
											panic(err)
										}
									}
									root := t1.GetRoot()
									if !bytes.Equal(root, canon.Hash()) {
										violate("canon", desc+": trie root differs from the canonical root (C02's business)", replay)
										return
									}
									donor := &donorDB{order: order}
									for _, n := range remList {
										nd, err := db.GetNode(n.Hash())
										if err != nil {
											panic(err)
										}
										donor.keys = append(donor.keys, util.Key(n.Hash()))
										donor.nodes = append(donor.nodes, nd.CloneNode())
										_ = db.DeleteNode(n.Hash())
									}
									t2 := util.NewMerklePatriciaTrie(db, util.Sequence(tver), root, statecache.NewEmpty())
									// 1. detection
									has, err := t2.HasMissingNodes(context.Background())
									if err != nil || has != (len(remList) > 0) {
										violate("has", fmt.Sprintf("%s: HasMissingNodes = %v, %v; %d reachable nodes are absent", desc, has, err, len(remList)), replay)
										return
									}
									t2 = util.NewMerklePatriciaTrie(db, util.Sequence(tver), root, statecache.NewEmpty())
									got, err := t2.GetAllMissingNodes()
									want := map[string]bool{}
									for h := range removed {
										if !removed[ci.parent[h]] {
											p := ci.parent[h]
											top := true
											for p != "" {
												if removed[p] {
													top = false
												}
												p = ci.parent[p]
											}
											if top {
												want[h] = true
											}
										}
									}
									gotSet := map[string]bool{}
									for _, k := range got {
										gotSet[string(k)] = true
									}
									if err != nil || !sameSet(gotSet, want) || len(got) != len(gotSet) {
										violate("all", fmt.Sprintf("%s: GetAllMissingNodes = %s, %v; absent nodes reachable through present ones: %s", desc, hexSet(gotSet), err, hexSet(want)), replay)
										return
									}
									// 1a. the same listing by a trie object that has already met some of the absent nodes in lookups (its
									// record of missing keys is not empty when the scan starts), asked twice
									{
										tl := util.NewMerklePatriciaTrie(db, util.Sequence(tver), root, statecache.NewEmpty())
										for i, p := range paths {
											if i%2 == 0 {
												_, _ = tl.GetNodeValueRaw(util.Path(p))
											}
										}
										for round := 1; round <= 2; round++ {
											got2, err2 := tl.GetAllMissingNodes()
											gs2 := map[string]bool{}
											for _, k := range got2 {
												gs2[string(k)] = true
											}
											if err2 != nil || !sameSet(gs2, want) || len(got2) != len(gs2) {
												violate("all-after-lookups", fmt.Sprintf("%s: GetAllMissingNodes (call %d) on a trie object that had already run into absent nodes in lookups = %s (%d keys), %v; absent nodes reachable through present ones: %s", desc, round, hexSet(gs2), len(got2), err2, hexSet(want)), replay)
												return
											}
										}
									}
									// 1b. a full iteration (handler tolerating absent nodes) records every absent node it runs into
									t2 = util.NewMerklePatriciaTrie(db, util.Sequence(tver), root, statecache.NewEmpty())
									seenAbsent := map[string]bool{}
									_ = t2.Iterate(context.Background(), func(ctx context.Context, path util.Path, key util.Key, node util.Node) error {
										if node == nil {
											seenAbsent[string(key)] = true
										}
										return nil
									}, util.NodeTypeLeafNode|util.NodeTypeFullNode|util.NodeTypeExtensionNode|util.NodeTypeValueNode)
									recorded := map[string]bool{}
									for _, k := range t2.GetMissingNodeKeys() {
										recorded[string(k)] = true
									}
									if !sameSet(seenAbsent, want) || !sameSet(recorded, want) {
										violate("iterate-missing", fmt.Sprintf("%s: a full Iterate reported absent nodes %s to its handler and recorded %s in GetMissingNodeKeys; absent nodes reachable through present ones: %s", desc, hexSet(seenAbsent), hexSet(recorded), hexSet(want)), replay)
										return
									}
									// 2. lookups
									t2 = util.NewMerklePatriciaTrie(db, util.Sequence(tver), root, statecache.NewEmpty())
									for _, p := range paths {
										atomic.AddInt64(&lookups, 1)
										hits := false
										for _, h := range crossed(canon, p) {
											if removed[string(h)] {
												hits = true
											}
										}
										v, err := t2.GetNodeValueRaw(util.Path(p))
										wantV, present := mdl[p]
										switch {
										case hits:
											if err == nil || err == util.ErrValueNotPresent {
												violate("lookup-under-absent", fmt.Sprintf("%s: lookup(%q) crosses an absent node but returned %q, %v", desc, p, v, err), replay)
												return
											}
										case present:
											if err != nil || string(v) != wantV {
												violate("lookup", fmt.Sprintf("%s: lookup(%q) = %q, %v; want %q", desc, p, v, err, wantV), replay)
												return
											}
										default:
											if err != util.ErrValueNotPresent {
												violate("lookup-absent", fmt.Sprintf("%s: lookup(%q) = %q, %v; want 'value not present'", desc, p, v, err), replay)
												return
											}
										}
									}
									// 2a. the same detection through LAYERED stores (an empty writable level over the damaged store, and a
									// second empty level over that): "not found" then comes out of the lower level(s)
									for depth := 1; depth <= 2; depth++ {
										var vdb util.NodeDB = db
										for i := 0; i < depth; i++ {
											vdb = util.NewLevelNodeDB(util.NewMemoryNodeDB(), vdb, false)
										}
										open := func() *util.MerklePatriciaTrie {
											return util.NewMerklePatriciaTrie(vdb, util.Sequence(tver), root, statecache.NewEmpty())
										}
										lfail := ""
										if has, err := open().HasMissingNodes(context.Background()); err != nil || has != (len(remList) > 0) {
											lfail = fmt.Sprintf("HasMissingNodes = %v, %v; %d reachable nodes are absent", has, err, len(remList))
										}
										if lfail == "" {
											got, err := open().GetAllMissingNodes()
											gs := map[string]bool{}
											for _, k := range got {
												gs[string(k)] = true
											}
											if err != nil || !sameSet(gs, want) || len(got) != len(gs) {
												lfail = fmt.Sprintf("GetAllMissingNodes = %s, %v; absent nodes reachable through present ones: %s", hexSet(gs), err, hexSet(want))
											}
										}
										if lfail == "" {
											tl := open()
											seen := map[string]bool{}
											_ = tl.Iterate(context.Background(), func(ctx context.Context, path util.Path, key util.Key, node util.Node) error {
												if node == nil {
													seen[string(key)] = true
												}
												return nil
											}, util.NodeTypeLeafNode|util.NodeTypeFullNode|util.NodeTypeExtensionNode|util.NodeTypeValueNode)
											rec := map[string]bool{}
											for _, k := range tl.GetMissingNodeKeys() {
												rec[string(k)] = true
											}
											if !sameSet(seen, want) || !sameSet(rec, want) {
												lfail = fmt.Sprintf("a full Iterate reported absent nodes %s to its handler and recorded %s; absent nodes reachable through present ones: %s", hexSet(seen), hexSet(rec), hexSet(want))
											}
										}
										if lfail == "" {
											tl := open()
											for _, p := range paths {
												hits := false
												for _, h := range crossed(canon, p) {
													if removed[string(h)] {
														hits = true
													}
												}
												v, err := tl.GetNodeValueRaw(util.Path(p))
												wantV, present := mdl[p]
												switch {
												case hits && (err == nil || err == util.ErrValueNotPresent):
													lfail = fmt.Sprintf("lookup(%q) crosses an absent node but returned %q, %v", p, v, err)
												case !hits && present && (err != nil || string(v) != wantV):
													lfail = fmt.Sprintf("lookup(%q) = %q, %v; want %q", p, v, err, wantV)
												case !hits && !present && err != util.ErrValueNotPresent:
													lfail = fmt.Sprintf("lookup(%q) = %q, %v; want 'value not present'", p, v, err)
												}
												if lfail != "" {
													break
												}
											}
										}
										if lfail != "" {
											violate("layered:"+lfail[:min(len(lfail), 20)], fmt.Sprintf("%s: the trie opened on %d empty writable level(s) over the damaged store: %s", desc, depth, lfail), replay)
											return
										}
									}
									// 2b. a repair that is interrupted by a store write error must leave the trie telling the truth
									// about what is still absent (first donor order only: the failure position is the variable)
									if len(remList) > 0 && len(order) > 0 && order[0] == 0 && sort.IntsAreSorted(order) {
										for failAt := 0; failAt < len(remList); failAt++ {
											fdb := &failDB{MemoryNodeDB: util.NewMemoryNodeDB(), failAt: -1}
											_ = db.Iterate(context.Background(), func(ctx context.Context, key util.Key, node util.Node) error {
												return fdb.MemoryNodeDB.PutNode(key, node)
											})
											tf := util.NewMerklePatriciaTrie(fdb, util.Sequence(tver), root, statecache.NewEmpty())
											fdb.failAt, fdb.puts = failAt, 0
											err := tf.MergeDB(donor, root, nil)
											fdb.failAt = -1
											if err == nil {
												violate("mergedb-swallow", fmt.Sprintf("%s: store write %d of the repair failed but MergeDB returned nil", desc, failAt), replay)
												return
											}
											still := map[string]bool{}
											for h := range removed {
												if _, e := fdb.MemoryNodeDB.GetNode(util.Key(h)); e != nil {
													still[h] = true
												}
											}
											wantF := map[string]bool{}
											for h := range still {
												top := true
												for p := ci.parent[h]; p != ""; p = ci.parent[p] {
													if still[p] {
														top = false
													}
												}
												if top {
													wantF[h] = true
												}
											}
											gotF, errF := tf.GetAllMissingNodes()
											gs := map[string]bool{}
											for _, k := range gotF {
												gs[string(k)] = true
											}
											if errF != nil || !sameSet(gs, wantF) {
												violate("mergedb-fail-missing", fmt.Sprintf("%s: store write %d of the repair failed; afterwards the same trie reports missing nodes %s (%v), the store lacks %s", desc, failAt, hexSet(gs), errF, hexSet(wantF)), replay)
												return
											}
											for _, p := range paths {
												hits := false
												for _, h := range crossed(canon, p) {
													if still[string(h)] {
														hits = true
													}
												}
												if v, err := tf.GetNodeValueRaw(util.Path(p)); hits && (err == nil || err == util.ErrValueNotPresent) {
													violate("mergedb-fail-lookup", fmt.Sprintf("%s: store write %d of the repair failed; lookup(%q) crosses a node the store still lacks but returned %q, %v", desc, failAt, p, v, err), replay)
													return
												}
											}
										}
									}
									// 2c. a delete on the damaged trie either fails or leaves the canonical root of the remaining content
									if len(order) == 0 || (order[0] == 0 && sort.IntsAreSorted(order)) {
										for _, p := range keys {
											cdb := util.NewMemoryNodeDB()
											_ = db.Iterate(context.Background(), func(ctx context.Context, key util.Key, node util.Node) error { return cdb.PutNode(key, node) })
											td := util.NewMerklePatriciaTrie(cdb, util.Sequence(origin), root, statecache.NewEmpty())
											nr, err := td.Delete(util.Path(p))
											if err != nil {
												continue
											}
											rest := map[string][]byte{}
											for k, v := range content {
												if k != p {
													rest[k] = v
												}
											}
											if want := model.CanonicalMPT(rest, origin).Hash(); !bytes.Equal(nr, want) {
												violate("delete-damaged", fmt.Sprintf("%s: Delete(%q) on the damaged trie reported success with root %x; the canonical root of the remaining content is %x", desc, p, nr, want), replay)
												return
											}
										}
									}
									// 3a. store-level repair: the donor store merged into a copy of the damaged store with MergeState
									{
										sdb := util.NewMemoryNodeDB()
										_ = db.Iterate(context.Background(), func(ctx context.Context, key util.Key, node util.Node) error { return sdb.PutNode(key, node) })
										// a live trie on the damaged store has met the absent nodes (detection, listing, lookups) before the
										// store is repaired underneath it: "the trie again reads its full content" is about this object too
										live := util.NewMerklePatriciaTrie(sdb, util.Sequence(tver), root, statecache.NewEmpty())
										_, _ = live.HasMissingNodes(context.Background())
										_, _ = live.GetAllMissingNodes()
										for _, p := range paths {
											_, _ = live.GetNodeValueRaw(util.Path(p))
										}
										before := donor.fingerprint()
										if err := util.MergeState(context.Background(), donor, sdb); err != nil {
											violate("mergestate", desc+": MergeState returned "+err.Error(), replay)
											return
										}
										fail := ""
										if has, err := live.HasMissingNodes(context.Background()); err != nil || has {
											fail = fmt.Sprintf("the trie object that had met the absent nodes still reports missing nodes after MergeState repaired its store (%v, %v)", has, err)
										} else if got, err := live.GetAllMissingNodes(); err != nil || len(got) != 0 {
											fail = fmt.Sprintf("the trie object that had met the absent nodes still lists %d missing nodes after MergeState repaired its store (%v)", len(got), err)
										} else if f := viewOf(live, mdl, paths); f != "" {
											fail = "the trie object that had met the absent nodes, after MergeState repaired its store: " + f
										} else if !bytes.Equal(live.GetRoot(), root) {
											fail = fmt.Sprintf("the trie object that had met the absent nodes has root %x after the repair, %x before", live.GetRoot(), root)
										}
										if after := donor.fingerprint(); after != before {
											fail = "MergeState changed the donor store's node objects: " + lineDiff(strings.ReplaceAll(before, ";", "\n"), strings.ReplaceAll(after, ";", "\n"))
										}
										if fail == "" {
											_ = sdb.Iterate(context.Background(), func(ctx context.Context, key util.Key, node util.Node) error {
												if fail == "" && !bytes.Equal(node.GetHashBytes(), key) {
													fail = fmt.Sprintf("after MergeState the store holds under key %x a node hashing to %x", []byte(key), node.GetHashBytes())
												}
												return nil
											})
										}
										if fail == "" {
											ts := util.NewMerklePatriciaTrie(sdb, util.Sequence(tver), root, statecache.NewEmpty())
											if has, err := ts.HasMissingNodes(context.Background()); err != nil || has {
												fail = fmt.Sprintf("after MergeState a fresh trie on the store still reports missing nodes (%v, %v)", has, err)
											} else if f := viewOf(util.NewMerklePatriciaTrie(sdb, util.Sequence(tver), root, statecache.NewEmpty()), mdl, paths); f != "" {
												fail = "after MergeState: " + f
											}
										}
										if fail != "" {
											violate("mergestate:"+fail[:min(len(fail), 30)], desc+": "+fail, replay)
											return
										}
									}
									// 3b. the donor is a LAYERED store whose own trie has moved on since (it replaced every value, so
									// the nodes of the state being repaired are marked deleted in the donor's upper level while its
									// lower level still holds them): the repair must still find them
									if len(remList) > 0 && order[0] == 0 && sort.IntsAreSorted(order) {
										lower := util.NewMemoryNodeDB()
										_ = db.Iterate(context.Background(), func(ctx context.Context, key util.Key, node util.Node) error {
											return lower.PutNode(key, node.CloneNode())
										})
										for i := range donor.keys {
											_ = lower.PutNode(donor.keys[i], donor.nodes[i].CloneNode())
										}
										lvl := util.NewLevelNodeDB(util.NewMemoryNodeDB(), lower, false)
										dt := util.NewMerklePatriciaTrie(lvl, util.Sequence(origin+1), root, statecache.NewEmpty())
										for i, k := range keys {
											var err error
											if i == 0 && len(keys) > 1 {
												_, err = dt.Delete(util.Path(k))
											} else {
												_, err = dt.Insert(util.Path(k), val("moved-on"))
											}
											if err != nil {
												panic(err)
											}
										}
										for _, via := range []string{"MergeState", "MergeDB"} {
											sdb := util.NewMemoryNodeDB()
											_ = db.Iterate(context.Background(), func(ctx context.Context, key util.Key, node util.Node) error { return sdb.PutNode(key, node) })
											var err error
											if via == "MergeState" {
												err = util.MergeState(context.Background(), lvl, sdb)
											} else {
												err = util.NewMerklePatriciaTrie(sdb, util.Sequence(tver), root, statecache.NewEmpty()).MergeDB(lvl, root, nil)
											}
											fail := ""
											if err != nil {
												fail = via + " returned " + err.Error()
											} else {
												ts := util.NewMerklePatriciaTrie(sdb, util.Sequence(tver), root, statecache.NewEmpty())
												if has, err := ts.HasMissingNodes(context.Background()); err != nil || has {
													fail = fmt.Sprintf("after %s a fresh trie on the store still reports missing nodes (%v, %v)", via, has, err)
												} else if f := viewOf(util.NewMerklePatriciaTrie(sdb, util.Sequence(tver), root, statecache.NewEmpty()), mdl, paths); f != "" {
													fail = "after " + via + ": " + f
												}
											}
											if fail != "" {
												violate("layered-donor:"+via, desc+": repair from a layered donor store whose own trie has moved on: "+fail, replay)
												return
											}
										}
									}
									// 3d. the repair is made by the trie object that BUILT the state (its node cache still holds every node
									// that has vanished from the store behind it); other tries on the store must see the repair
									if len(remList) > 0 && tver == origin && order[0] == 0 && sort.IntsAreSorted(order) {
										if err := t1.MergeDB(donor, root, nil); err != nil {
											violate("live-repair", desc+": MergeDB on the trie object that built the state returned "+err.Error(), replay)
											return
										}
										fresh := util.NewMerklePatriciaTrie(db, util.Sequence(tver), root, statecache.NewEmpty())
										if has, err := fresh.HasMissingNodes(context.Background()); err != nil || has {
											violate("live-repair", fmt.Sprintf("%s: repaired through the trie object that built the state (warm node cache); a fresh trie on the store still reports missing nodes (%v, %v)", desc, has, err), replay)
											return
										}
										// put the store back into its damaged state for the steps below
										for _, n := range remList {
											_ = db.DeleteNode(n.Hash())
										}
									}
									// 3c. the donor's nodes arrive over the wire (Encode -> CreateNode) and carry a version mark that
									// differs from their origin (as nodes visited by a pruning pass do); the hash covers the origin only
									if len(remList) > 0 && order[0] == 0 && sort.IntsAreSorted(order) {
										wire := &donorDB{order: order}
										for i, n := range donor.nodes {
											c := n.CloneNode()
											c.SetVersion(c.GetOrigin() + 3)
											dn, err := util.CreateNode(bytes.NewReader(c.Encode()))
											if err != nil {
												violate("wire-decode", desc+": a marked node does not decode from its own encoding: "+err.Error(), replay)
												return
											}
											wire.keys = append(wire.keys, donor.keys[i])
											wire.nodes = append(wire.nodes, dn)
										}
										sdb := util.NewMemoryNodeDB()
										_ = db.Iterate(context.Background(), func(ctx context.Context, key util.Key, node util.Node) error { return sdb.PutNode(key, node) })
										tw := util.NewMerklePatriciaTrie(sdb, util.Sequence(tver), root, statecache.NewEmpty())
										fail := ""
										if err := tw.MergeDB(wire, root, nil); err != nil {
											fail = "MergeDB returned " + err.Error()
										} else if has, err := util.NewMerklePatriciaTrie(sdb, util.Sequence(tver), root, statecache.NewEmpty()).HasMissingNodes(context.Background()); err != nil || has {
											fail = fmt.Sprintf("after MergeDB a fresh trie on the store still reports missing nodes (%v, %v)", has, err)
										} else if f := viewOf(util.NewMerklePatriciaTrie(sdb, util.Sequence(tver), root, statecache.NewEmpty()), mdl, paths); f != "" {
											fail = "after MergeDB: " + f
										}
										if fail != "" {
											violate("wire-donor", desc+": repair from donor nodes that were encoded, carry a version mark (origin+3) and were decoded again: "+fail, replay)
											return
										}
									}
									// 3e. the donor hands the right nodes out under WRONG keys (a peer answering with mis-filed entries:
									// keys rotated by one, or a made-up key for a single node): MergeDB files what it takes over under
									// each node's own hash, so the repair succeeds and no stored key differs from its node's hash
									if len(remList) > 0 && order[0] == 0 && sort.IntsAreSorted(order) {
										mis := &donorDB{order: order}
										for i, n := range donor.nodes {
											mis.nodes = append(mis.nodes, n.CloneNode())
											if len(donor.keys) > 1 {
												mis.keys = append(mis.keys, donor.keys[(i+1)%len(donor.keys)])
											} else {
												mis.keys = append(mis.keys, util.Key(model.Sha3([]byte("made-up key"))))
											}
										}
										sdb := util.NewMemoryNodeDB()
										_ = db.Iterate(context.Background(), func(ctx context.Context, key util.Key, node util.Node) error { return sdb.PutNode(key, node) })
										tw := util.NewMerklePatriciaTrie(sdb, util.Sequence(tver), root, statecache.NewEmpty())
										fail := ""
										if err := tw.MergeDB(mis, root, nil); err != nil {
											fail = "MergeDB returned " + err.Error()
										}
										if fail == "" {
											_ = sdb.Iterate(context.Background(), func(ctx context.Context, key util.Key, node util.Node) error {
												if fail == "" && !bytes.Equal(node.GetHashBytes(), key) {
													fail = fmt.Sprintf("after MergeDB the trie's store holds under key %x a node hashing to %x", []byte(key), node.GetHashBytes())
												}
												return nil
											})
										}
										if fail == "" {
											if f := viewOf(tw, mdl, paths); f != "" {
												fail = "the repairing trie after MergeDB: " + f
											} else if has, err := util.NewMerklePatriciaTrie(sdb, util.Sequence(tver), root, statecache.NewEmpty()).HasMissingNodes(context.Background()); err != nil || has {
												fail = fmt.Sprintf("after MergeDB a fresh trie on the store still reports missing nodes (%v, %v)", has, err)
											} else if f := viewOf(util.NewMerklePatriciaTrie(sdb, util.Sequence(tver), root, statecache.NewEmpty()), mdl, paths); f != "" {
												fail = "a fresh trie after MergeDB: " + f
											}
										}
										if fail != "" {
											violate("misfiled-donor", desc+": repair from a donor that hands the removed nodes out under wrong keys: "+fail, replay)
											return
										}
									}
									// 3. repair
									atomic.AddInt64(&repairs, 1)
									before := donor.fingerprint()
									t3 := util.NewMerklePatriciaTrie(db, util.Sequence(tver), root, statecache.NewEmpty())
									if err := t3.MergeDB(donor, root, nil); err != nil {
										violate("mergedb", desc+": MergeDB returned "+err.Error(), replay)
										return
									}
									fail := ""
									if after := donor.fingerprint(); after != before {
										fail = "MergeDB changed the donor store's node objects: " + lineDiff(strings.ReplaceAll(before, ";", "\n"), strings.ReplaceAll(after, ";", "\n"))
									}
									if fail == "" && !bytes.Equal(t3.GetRoot(), root) {
										fail = fmt.Sprintf("after MergeDB the root is %x, was %x", t3.GetRoot(), root)
									}
									if fail == "" {
										t4 := util.NewMerklePatriciaTrie(db, util.Sequence(tver), root, statecache.NewEmpty())
										if has, err := t4.HasMissingNodes(context.Background()); err != nil || has {
											fail = fmt.Sprintf("after MergeDB a fresh trie on the store still reports missing nodes (%v, %v)", has, err)
										} else if f := viewOf(util.NewMerklePatriciaTrie(db, util.Sequence(tver), root, statecache.NewEmpty()), mdl, paths); f != "" {
											fail = "after MergeDB: " + f
										} else if f := viewOf(t3, mdl, paths); f != "" {
											fail = "after MergeDB, the repaired trie itself: " + f
										}
									}
									if fail != "" {
										if tver != origin && len(remList) > 0 && rt.OpenFinding("C17-mergedb-restamps-origin") {
											knownHit("C17-mergedb-restamps-origin", desc, fail)
											return
										}
										violate("repair:"+fail[:min(len(fail), 30)], desc+": "+fail, replay)
									}
								}()
							}
						}
					}
				}
			}
		}()
	}
	wg.Wait()
	rep.Set("states", len(contentsList))
	rep.Set("transitions", int(cases))
	rep.Set("traces_validated_against_impl", int(cases))
	rep.Set("evaluations", int(cases+lookups))
	rep.Set("distinct_nontrivial", int(cases))
	rep.Set("lookups_judged", int(lookups))
	rep.Set("repairs_judged", int(repairs))
	rep.Set("rule", fmt.Sprintf("every content of <= %d of the paths %q (prefix pairs, interior values, prefix-free 4-char paths) x EVERY subset of its reachable non-root nodes removed from the store (all subsets up to 2^9, else all of size <= 3) x trie version equal to / different from the nodes' origin x every order of the donor store's iteration (all permutations up to %d nodes, rotations+reversals above). Oracle: HasMissingNodes <=> some node absent; GetAllMissingNodes, and the keys a full tolerant Iterate reports to its handler and records in GetMissingNodeKeys, == absent nodes whose ancestors are all present; a lookup that crosses an absent node (per the independent canonical trie) returns an error other than 'value not present', all other lookups answer per model; after MergeDB, and after MergeState into a copy of the damaged store: no missing node, full content, same root, every store key == hash of its node, donor node objects unchanged; a repair made through the trie object that built the state (warm node cache) seen by a fresh trie; a repair from donor nodes that went through Encode/CreateNode with a version mark different from their origin; the same repairs from a layered donor store whose own trie has replaced every value since (its upper level marks the needed nodes deleted, its lower level holds them); a MergeDB interrupted by a store write error (every position) returns the error and the same trie keeps reporting exactly what the store still lacks; a Delete on the damaged trie either fails or yields the canonical root of the remaining content; plus the deepest comb (65 paths of 64 characters, 64 nested branches) with every single node of the deepest path absent in turn; 'states' = contents, 'transitions' = (content, removal subset, version, order) cases", maxKeys, paths, permCap))
	rep.Sample(map[string]any{"content": []string{"aa", "ab", "0a1b"}, "removed": "second-level branch", "trie_version": 5, "order": []int{0}})
	if !rt.SubRun && (rt.Replay == nil || rt.Replay.Raw["run"] == "deep-comb") {
		deepComb(rep)
	}
	rep.RunVariant()
	return rep.End()
}

func popcount(x int) int {
	n := 0
	for ; x != 0; x &= x - 1 {
		n++
	}
	return n
}

func nodeNames(ns []*model.MPTNode) string {
	var s []string
	for _, n := range ns {
		s = append(s, fmt.Sprintf("%c@%q+%q", n.Kind, n.Prefix, n.Path))
	}
	return "[" + strings.Join(s, " ") + "]"
}

func sameSet(a, b map[string]bool) bool {
	if len(a) != len(b) {
		return false
	}
	for k := range a {
		if !b[k] {
			return false
		}
	}
	return true
}

func hexSet(m map[string]bool) string {
	var s []string
	for k := range m {
		s = append(s, hex.EncodeToString([]byte(k))[:10])
	}
	sort.Strings(s)
	return "{" + strings.Join(s, ",") + "}"
}

// deepComb: the deepest trie 64-character paths allow (65 paths, path i shares exactly i characters with the
// last one, so the last path runs through 64 nested branches); every single node on that path, and the leaf at
// its end, removed in turn: detection, the exact missing list, the failing lookup and the repair.
func deepComb(rep *rt.Report) {
	target := strings.Repeat("5a", 32)
	var keys []string
	for i := 0; i < 64; i++ {
		b := []byte(target)
		if b[i] == '5' {
			b[i] = '3'
		} else {
			b[i] = 'c'
		}
		keys = append(keys, string(b))
	}
	keys = append(keys, target)
	build := func() (*util.MemoryNodeDB, util.Key) {
		db := util.NewMemoryNodeDB()
		t := util.NewMerklePatriciaTrie(db, 1, nil, statecache.NewEmpty())
		for i, k := range keys {
			if _, err := t.Insert(util.Path(k), val(fmt.Sprintf("v%d", i))); err != nil {
				panic(err)
			}
		}
		return db, t.GetRoot()
	}
	db0, root := build()
	// the nodes on the target's path, top down
	var path []util.Key
	{
		t := util.NewMerklePatriciaTrie(db0, 1, root, statecache.NewEmpty())
		_ = t.Iterate(context.Background(), func(ctx context.Context, p util.Path, key util.Key, node util.Node) error {
			full := string(p)
			if ln, ok := node.(*util.LeafNode); ok {
				full += string(ln.Path)
			}
			if strings.HasPrefix(target, string(p)) && (len(full) <= len(target)) && strings.HasPrefix(target, full[:min(len(full), len(target))]) {
				if _, isLeaf := node.(*util.LeafNode); !isLeaf || full == target {
					path = append(path, append(util.Key{}, key...))
				}
			}
			return nil
		}, util.NodeTypeLeafNode|util.NodeTypeFullNode|util.NodeTypeExtensionNode)
	}
	rep.Set("deep_comb_path_nodes", len(path))
	for idx, victim := range path {
		if idx == 0 {
			continue // the root itself
		}
		rep.Add("states", 1)
		rep.Add("transitions", 1)
		rep.Add("traces_validated_against_impl", 1)
		rep.Add("evaluations", 1)
		desc := fmt.Sprintf("[deep-comb] 65 paths of 64 characters sharing 0..63 characters with the last one, node %d of %d on the last path's way absent", idx, len(path)-1)
		fail := func(f string) {
			rep.Violate(desc+": "+f, map[string]any{"run": "deep-comb", "node": idx})
		}
		db, _ := build()
		nd, err := db.GetNode(victim)
		if err != nil {
			fail("harness: victim not in store")
			return
		}
		donor := util.NewMemoryNodeDB()
		_ = donor.PutNode(victim, nd.CloneNode())
		_ = db.DeleteNode(victim)
		t := util.NewMerklePatriciaTrie(db, 1, root, statecache.NewEmpty())
		if has, err := t.HasMissingNodes(context.Background()); err != nil || !has {
			fail(fmt.Sprintf("HasMissingNodes = %v, %v", has, err))
			return
		}
		t = util.NewMerklePatriciaTrie(db, 1, root, statecache.NewEmpty())
		got, err := t.GetAllMissingNodes()
		if err != nil || len(got) != 1 || !bytes.Equal(got[0], victim) {
			fail(fmt.Sprintf("GetAllMissingNodes = %x, %v; exactly node %x is absent", got, err, []byte(victim)))
			return
		}
		t = util.NewMerklePatriciaTrie(db, 1, root, statecache.NewEmpty())
		if v, err := t.GetNodeValueRaw(util.Path(target)); err == nil || err == util.ErrValueNotPresent {
			fail(fmt.Sprintf("lookup of the last path crosses the absent node but returned %q, %v", v, err))
			return
		}
		t = util.NewMerklePatriciaTrie(db, 1, root, statecache.NewEmpty())
		if err := t.MergeDB(donor, root, nil); err != nil {
			fail("MergeDB: " + err.Error())
			return
		}
		t = util.NewMerklePatriciaTrie(db, 1, root, statecache.NewEmpty())
		if has, err := t.HasMissingNodes(context.Background()); err != nil || has {
			fail(fmt.Sprintf("after MergeDB: HasMissingNodes = %v, %v", has, err))
			return
		}
		if v, err := t.GetNodeValueRaw(util.Path(target)); err != nil || string(v) != "v64" {
			fail(fmt.Sprintf("after MergeDB: lookup of the last path = %q, %v", v, err))
			return
		}
	}
}

func unionPaths(a, b []string) []string {
	out := append([]string{}, a...)
	seen := map[string]bool{}
	for _, x := range a {
		seen[x] = true
	}
	for _, x := range b {
		if !seen[x] {
			seen[x] = true
			out = append(out, x)
		}
	}
	return out
}
