package conc

import (
	"fmt"

	"github.com/0chain/common/core/statecache"

	"verifmc/explore/sched"
)

// StressScenarios are larger free-running bodies for the auxiliary -race pass only (too big to explore):
// several committers and readers at once.
func StressScenarios(prop string) []sched.Scenario {
	if prop != "C08" {
		return nil
	}
	return []sched.Scenario{{Name: "stress-4committers-8readers", Make: func() ([]func(), func() (string, string)) {
		sc := statecache.NewStateCache()
		mkBlock(sc, blk{hash: "G", prev: "", sets: map[string]string{"k": "G"}}).Commit()
		var bodies []func()
		prev := "G"
		bad := make([]string, 12)
		for c := 0; c < 4; c++ {
			h := fmt.Sprintf("B%d", c)
			bc := mkBlock(sc, blk{hash: h, prev: prev, sets: map[string]string{"k": h}})
			bodies = append(bodies, func() { bc.Commit() })
			prev = h
		}
		for r := 0; r < 8; r++ {
			r := r
			at := fmt.Sprintf("B%d", r%4)
			bodies = append(bodies, func() {
				for i := 0; i < 20; i++ {
					if v, ok := sc.Get("k", at); ok && render(v) != at {
						// the chain is B0<-B1<-B2<-B3, every block writes k itself: a hit at Bi must be Bi's value
						bad[r] = fmt.Sprintf("Get(k,%s) = %s", at, render(v))
					}
				}
			})
		}
		return bodies, func() (string, string) {
			for _, b := range bad {
				if b != "" {
					return "", b
				}
			}
			return "", ""
		}
	}}}
}

func render(v statecache.Value) string { return fmt.Sprint(v) }
