// Package mpt holds the harnesses for the state-trie properties (C01-C05, C14, C17).
package mpt

import (
	"bytes"
	"context"
	"encoding/hex"
	"fmt"
	"sort"
	"strings"
	"sync/atomic"

	"github.com/0chain/common/core/logging"
	"github.com/0chain/common/core/statecache"
	"github.com/0chain/common/core/util"
	"github.com/linxGnu/grocksdb"
	"go.uber.org/zap"
)

func init() { logging.Logger = zap.NewNop() }

type StoreKind int

const (
	Mem StoreKind = iota
	LevelMem
	LevelP
	PDirect // the trie sits directly on the persistent store: every node write is a PNodeDB.PutNode / DeleteNode
	LevelL  // layered over a layered store: saves go through LevelNodeDB.MultiPutNode
)

func (k StoreKind) String() string {
	return [...]string{"mem", "level(mem,mem)", "level(mem,pnodedb)", "pnodedb", "level(mem,level(mem,mem))"}[k]
}

// Op is one letter of the alphabet.
type Op struct {
	K byte // I insert, D delete, E insert-empty, O oversize, F flush(save+reopen), B bump version
	P string
	V string
}

func (o Op) String() string {
	switch o.K {
	case 'I':
		return fmt.Sprintf("Insert(%q,%q)", o.P, o.V)
	case 'D':
		return fmt.Sprintf("Delete(%q)", o.P)
	case 'E':
		return fmt.Sprintf("InsertEmpty(%q)", o.P)
	case 'O':
		return fmt.Sprintf("InsertOversize(%q)", o.P)
	case 'U':
		return fmt.Sprintf("InsertUnencodable(%q)", o.P)
	case 'F':
		return "SaveAndReopen"
	case 'B':
		return "SetVersion(+1)"
	}
	return "?"
}

// bigVal is a value whose encoding is one byte over the limit; the slice is shared
// (the trie must reject it before looking at it any further).
type bigVal struct{}

var bigBuf = make([]byte, util.MPTMaxAllowableNodeSize+1)

func (bigVal) MarshalMsg([]byte) ([]byte, error)     { return bigBuf, nil }
func (bigVal) UnmarshalMsg(b []byte) ([]byte, error) { return nil, nil }

// badVal is a value that cannot be encoded: its MarshalMsg reports an error (with or without partial output).
type badVal struct{ partial bool }

var errUnencodable = fmt.Errorf("value cannot be encoded")

func (b badVal) MarshalMsg([]byte) ([]byte, error) {
	if b.partial {
		return []byte("partial"), errUnencodable
	}
	return nil, errUnencodable
}
func (badVal) UnmarshalMsg(b []byte) ([]byte, error) { return nil, nil }

func val(s string) *util.SecureSerializableValue {
	return &util.SecureSerializableValue{Buffer: []byte(s)}
}

var devCounter int64

func nextDev() int64    { return atomic.AddInt64(&devCounter, 1) }
func resetDev(p string) { grocksdb.ResetDevice(p) }

// World is one fresh instance of trie + stores + reference model.
type World struct {
	Kind    StoreKind
	Base    util.NodeDB
	PN      *util.PNodeDB
	DevPath string
	T       *util.MerklePatriciaTrie
	Ver     int64
	Model   map[string]string
	Bumped  bool
	// states saved into the lower store so far (root + content): later operations of the layer above never change them
	Flushed []flushed
}

type flushed struct {
	root  []byte
	ver   int64
	model map[string]string
}

func NewWorld(kind StoreKind, version int64) *World {
	w := &World{Kind: kind, Ver: version, Model: map[string]string{}}
	switch kind {
	case Mem:
		w.T = util.NewMerklePatriciaTrie(util.NewMemoryNodeDB(), util.Sequence(version), nil, statecache.NewEmpty())
	case LevelMem:
		w.Base = util.NewMemoryNodeDB()
	case LevelP:
		w.DevPath = fmt.Sprintf("mptworld-%d", atomic.AddInt64(&devCounter, 1))
		pn, err := util.NewPNodeDB(w.DevPath, "")
		if err != nil {
			panic(err)
		}
		w.PN, w.Base = pn, pn
	case PDirect:
		w.DevPath = fmt.Sprintf("mptworld-%d", atomic.AddInt64(&devCounter, 1))
		pn, err := util.NewPNodeDB(w.DevPath, "")
		if err != nil {
			panic(err)
		}
		w.PN, w.Base = pn, pn
		w.T = util.NewMerklePatriciaTrie(pn, util.Sequence(version), nil, statecache.NewEmpty())
	case LevelL:
		w.Base = util.NewLevelNodeDB(util.NewMemoryNodeDB(), util.NewMemoryNodeDB(), false)
	}
	if kind != Mem && kind != PDirect {
		w.T = util.NewMerklePatriciaTrie(util.NewLevelNodeDB(util.NewMemoryNodeDB(), w.Base, false), util.Sequence(version), nil, statecache.NewEmpty())
	}
	return w
}

func (w *World) Close() {
	if w.DevPath != "" {
		grocksdb.ResetDevice(w.DevPath)
	}
}

// Apply executes op on the real trie and on the model and judges the operation's
// own return value. It returns a non-empty failure string on a wrong answer.
func (w *World) Apply(o Op) (fail string) {
	defer func() {
		if r := recover(); r != nil {
			fail = fmt.Sprintf("panic: %v", r)
		}
	}()
	before := w.T.GetRoot()
	switch o.K {
	case 'I':
		v := val(o.V)
		pth := util.Path(o.P)
		r, err := w.T.Insert(pth, v)
		// the caller keeps using (and overwriting) its own buffers after the call
		scribble(v.Buffer)
		if err != nil {
			return fmt.Sprintf("insert returned error %v", err)
		}
		if !bytes.Equal(r, w.T.GetRoot()) {
			return "insert returned a root different from GetRoot()"
		}
		w.Model[o.P] = o.V
	case 'D', 'E':
		var err error
		if o.K == 'D' {
			_, err = w.T.Delete(util.Path(o.P))
		} else {
			_, err = w.T.Insert(util.Path(o.P), val(""))
		}
		if _, ok := w.Model[o.P]; ok {
			if err != nil {
				return fmt.Sprintf("delete of present path returned %v", err)
			}
			delete(w.Model, o.P)
		} else {
			if err != util.ErrValueNotPresent {
				return fmt.Sprintf("delete of absent path returned err=%v, want 'value not present'", err)
			}
			if !bytes.Equal(before, w.T.GetRoot()) {
				return "delete of absent path changed the root"
			}
		}
	case 'O':
		_, err := w.T.Insert(util.Path(o.P), bigVal{})
		if err == nil {
			return "over-size value accepted"
		}
		if !bytes.Equal(before, w.T.GetRoot()) {
			return "rejected over-size insert changed the root"
		}
	case 'U':
		// a value whose encoding fails: the insert reports the error and has not happened (the lookups and the
		// iteration that follow every operation compare the content with the unchanged model)
		for _, partial := range []bool{false, true} {
			if _, err := w.T.Insert(util.Path(o.P), badVal{partial}); err == nil {
				return "Insert of a value whose encoding fails returned no error"
			}
			if !bytes.Equal(before, w.T.GetRoot()) {
				return "a rejected insert (the value's encoding failed) changed the root"
			}
		}
	case 'F':
		if w.Kind == PDirect {
			// everything is in the store already: a new trie object on it (cold node cache)
			w.T = util.NewMerklePatriciaTrie(w.PN, util.Sequence(w.Ver), before, statecache.NewEmpty())
			return ""
		}
		if err := w.T.SaveChanges(context.Background(), w.Base, false); err != nil {
			return fmt.Sprintf("SaveChanges: %v", err)
		}
		w.T = util.NewMerklePatriciaTrie(util.NewLevelNodeDB(util.NewMemoryNodeDB(), w.Base, false), util.Sequence(w.Ver), before, statecache.NewEmpty())
		if n := len(w.Flushed); n == 0 || !bytes.Equal(w.Flushed[n-1].root, before) {
			m := make(map[string]string, len(w.Model))
			for k, v := range w.Model {
				m[k] = v
			}
			w.Flushed = append(w.Flushed, flushed{root: before, ver: w.Ver, model: m})
		}
	case 'B':
		w.Ver++
		w.Bumped = true
		w.T.SetVersion(util.Sequence(w.Ver))
	}
	return ""
}

// Observe checks every lookup of the alphabet and a full iteration against the model.
func (w *World) Observe(paths []string) (fail string) {
	defer func() {
		if r := recover(); r != nil {
			fail = fmt.Sprintf("panic while reading: %v", r)
		}
	}()
	for pass := 0; pass < 2; pass++ {
		for _, p := range paths {
			v, err := w.T.GetNodeValueRaw(util.Path(p))
			want, ok := w.Model[p]
			if ok {
				if err != nil || string(v) != want {
					if pass == 1 {
						return fmt.Sprintf("lookup(%q) = %q, %v; want %q (second pass: the caller overwrote the byte slices earlier lookups returned)", p, v, err, want)
					}
					return fmt.Sprintf("lookup(%q) = %q, %v; want %q", p, v, err, want)
				}
				// what a lookup hands out belongs to the caller
				scribble(v)
				var sv util.SecureSerializableValue
				if err := w.T.GetNodeValue(util.Path(p), &sv); err != nil || string(sv.Buffer) != want {
					return fmt.Sprintf("GetNodeValue(%q) = %q, %v; want %q", p, sv.Buffer, err, want)
				}
			} else if err != util.ErrValueNotPresent {
				return fmt.Sprintf("lookup(%q) = %q, %v; want 'value not present'", p, v, err)
			}
		}
	}
	{
		// a second trie object on the same store at the same root (cold node cache) reads the same content
		t2 := util.NewMerklePatriciaTrie(w.T.GetNodeDB(), w.T.GetVersion(), w.T.GetRoot(), statecache.NewEmpty())
		for _, p := range paths {
			v, err := t2.GetNodeValueRaw(util.Path(p))
			want, ok := w.Model[p]
			if ok && (err != nil || string(v) != want) {
				return fmt.Sprintf("a second trie opened on the same store at the same root: lookup(%q) = %q, %v; want %q", p, v, err, want)
			}
			if !ok && err != util.ErrValueNotPresent {
				return fmt.Sprintf("a second trie opened on the same store at the same root: lookup(%q) = %q, %v; want 'value not present'", p, v, err)
			}
		}
	}
	// every state saved into the lower store earlier still reads its own content from that store alone
	for i, fl := range w.Flushed {
		t3 := util.NewMerklePatriciaTrie(w.Base, util.Sequence(fl.ver), fl.root, statecache.NewEmpty())
		for _, p := range paths {
			v, err := t3.GetNodeValueRaw(util.Path(p))
			want, ok := fl.model[p]
			if ok && (err != nil || string(v) != want) {
				return fmt.Sprintf("the state saved to the lower store by save %d (root %x) is no longer what it was: lookup(%q) on that store = %q, %v; it held %q", i+1, fl.root, p, v, err, want)
			}
			if !ok && err != util.ErrValueNotPresent {
				return fmt.Sprintf("the state saved to the lower store by save %d (root %x) is no longer what it was: lookup(%q) on that store = %q, %v; it held nothing there", i+1, fl.root, p, v, err)
			}
		}
	}
	got := map[string]string{}
	dup := ""
	err := w.T.Iterate(context.Background(), func(ctx context.Context, path util.Path, key util.Key, node util.Node) error {
		vn, ok := node.(*util.ValueNode)
		if !ok {
			return fmt.Errorf("non-value node %T passed for value visit", node)
		}
		p := string(path)
		if _, d := got[p]; d {
			dup = p
		}
		got[p] = string(vn.GetValueBytes())
		return nil
	}, util.NodeTypeValueNode)
	if err != nil {
		return fmt.Sprintf("iterate returned %v", err)
	}
	if dup != "" {
		return fmt.Sprintf("iterate yielded %q twice", dup)
	}
	if len(got) != len(w.Model) {
		return fmt.Sprintf("iterate yielded %v, want %v", got, w.Model)
	}
	for k, v := range w.Model {
		if gv, ok := got[k]; !ok || gv != v {
			return fmt.Sprintf("iterate yielded %v, want %v", got, w.Model)
		}
	}
	return ""
}

// ModelKey is the canonical rendering of the reference content.
func (w *World) ModelKey() string {
	ks := make([]string, 0, len(w.Model))
	for k, v := range w.Model {
		ks = append(ks, k+"="+v)
	}
	sort.Strings(ks)
	return strings.Join(ks, ",")
}

// ImplKey fingerprints the implementation state that decides all futures: root,
// version, pending change set, keys of the writable store level.
func (w *World) ImplKey() string {
	var sb strings.Builder
	sb.WriteString(hex.EncodeToString(w.T.GetRoot()))
	fmt.Fprintf(&sb, "|v%d|", w.Ver)
	_, changes, deletes, start := w.T.GetChanges()
	var cs []string
	for _, c := range changes {
		s := c.New.GetHash()
		if c.Old != nil {
			s += "<" + c.Old.GetHash()
		}
		cs = append(cs, s)
	}
	sort.Strings(cs)
	sb.WriteString(strings.Join(cs, ","))
	sb.WriteString("|")
	var ds []string
	for _, d := range deletes {
		ds = append(ds, d.GetHash())
	}
	sort.Strings(ds)
	sb.WriteString(strings.Join(ds, ","))
	sb.WriteString("|" + hex.EncodeToString(start) + "|")
	sb.WriteString(strings.Join(storeKeys(w.T.GetNodeDB()), ","))
	return sb.String()
}

func storeKeys(db util.NodeDB) []string {
	var m *util.MemoryNodeDB
	switch d := db.(type) {
	case *util.MemoryNodeDB:
		m = d
	case *util.LevelNodeDB:
		m, _ = d.GetCurrent().(*util.MemoryNodeDB)
	case *util.PNodeDB:
		var ks []string
		_ = d.Iterate(context.Background(), func(ctx context.Context, key util.Key, node util.Node) error {
			ks = append(ks, hex.EncodeToString(key))
			return nil
		})
		sort.Strings(ks)
		return ks
	}
	if m == nil {
		return nil
	}
	var ks []string
	_ = m.Iterate(context.Background(), func(ctx context.Context, key util.Key, node util.Node) error {
		ks = append(ks, hex.EncodeToString(key))
		return nil
	})
	sort.Strings(ks)
	return ks
}

// Paths returns all even-length paths over the symbols up to maxLen characters.
func Paths(symbols string, maxLen int) []string {
	out := []string{""}
	level := []string{""}
	for l := 1; l <= maxLen; l++ {
		var next []string
		for _, p := range level {
			for _, s := range symbols {
				next = append(next, p+string(s))
			}
		}
		level = next
		if l%2 == 0 {
			out = append(out, level...)
		}
	}
	return out
}

// scribble overwrites a buffer the harness owns (as a caller that reuses its buffers would).
func scribble(b []byte) {
	for i := range b {
		b[i] ^= 0x5a
	}
}
