#!/usr/bin/env python3
"""seedkeep.py <id> <detected-by csv> <note>: copy a confirmed seeded change into /verif/seeded/<id>/"""
import json,os,shutil,sys
id,det,note=sys.argv[1],sys.argv[2],sys.argv[3]
name=sys.argv[4] if len(sys.argv)>4 else id
src=f'/tmp/seed/out/{id}'; dst=f'/verif/seeded/{name}'
os.makedirs(dst,exist_ok=True)
shutil.copy(f'{src}/patch.diff',dst)
if os.path.isdir(f'{dst}/demo'): shutil.rmtree(f'{dst}/demo')
shutil.copytree(f'{src}/demo',f'{dst}/demo')
m=json.load(open(f'{src}/meta.json'))
m['confirmed']={'demo_with_change':'fails (exit 1)','demo_without_change':'passes (exit 0)','existing_tests_with_change':'bin/baseline.sh: 54/54 stable tests pass',
  'how':'patch applied to a scratch worktree (/tmp/seed/wt-%s), demo run with and without it; then `git -C /repo apply patch.diff`, bin/baseline.sh and the listed checks (quick tier), `git -C /repo checkout -- .`'%id}
m['detected_by']=[x for x in det.split(',') if x]
m['note']=note
json.dump(m,open(f'{dst}/meta.json','w'),indent=1)
print('kept',dst)
