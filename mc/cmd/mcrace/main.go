// mcrace is the AUXILIARY free-running pass: the same scenario bodies as mcsched, real package sync,
// built with -race, every scenario repeated with all threads released together. A cooperative
// scheduler's hand-offs are happens-before edges, so the race detector is useless inside mcsched; this
// pass samples schedules (it is not the deciding step for any property, and is reported separately).
//
//	mcrace <ID> <iterations>     prints one JSON object; exit 66 if the race detector fired
package main

import (
	"encoding/json"
	"fmt"
	"os"
	"strconv"
	"sync"

	"verifmc/checks/conc"
	"verifmc/explore/sched"
)

var props = map[string]func() []sched.Scenario{
	"C08": conc.C08Scenarios,
	"C16": conc.C16Scenarios,
	"C20": conc.C20Scenarios,
}

func main() {
	f, ok := props[os.Args[1]]
	if !ok {
		fmt.Fprintln(os.Stderr, "unknown", os.Args[1])
		os.Exit(2)
	}
	iters, _ := strconv.Atoi(os.Args[2])
	out := map[string]any{"property": os.Args[1], "iterations_per_scenario": iters}
	fails := map[string]int{}
	runs := 0
	for _, sc := range append(f(), conc.StressScenarios(os.Args[1])...) {
		for i := 0; i < iters; i++ {
			bodies, judge := sc.Make()
			start := make(chan struct{})
			var wg sync.WaitGroup
			for _, b := range bodies {
				wg.Add(1)
				go func(b func()) {
					defer wg.Done()
					<-start
					b()
				}(b)
			}
			close(start)
			wg.Wait()
			runs++
			if _, fail := judge(); fail != "" {
				fails[sc.Name+": "+fail]++
			}
		}
	}
	out["executions"] = runs
	out["judge_failures"] = fails
	b, _ := json.Marshal(out)
	fmt.Println(string(b))
	if len(fails) > 0 {
		os.Exit(1)
	}
}
