-------------------------- MODULE StateCacheProto --------------------------
(* Commit / lookup protocol of core/statecache for ONE key, at the granularity of  *)
(* individual LRU operations (each is one critical section of the LRU's own lock,  *)
(* i.e. one scheduling point of the implementation under the vsync scheduler).     *)
(* Every behaviour of this model is replayed against the real code (mc/cmd/mcsched *)
(* --conform): after every step the dumped cache state must equal the model state. *)
EXTENDS Naturals, FiniteSets, TLC

CONSTANTS
  Blocks,       \* set of block names (strings)
  Parent,       \* [Blocks -> Blocks \cup {"none"}]
  Write,        \* [Blocks -> STRING]: "none" (block does not write k), "DEL" (removes k), else the value
  Pre,          \* blocks committed before the threads start
  Committers,   \* blocks committed by one thread each
  Readers,      \* reader thread names (strings, disjoint from Blocks)
  Query         \* [Readers -> Blocks]: the block each reader looks k up at

VARIABLES
  known,   \* sc.cache has a per-block map for k
  bvs,     \* the per-block map: [Blocks -> entry], "none" = no entry
  link,    \* hashCache: [Blocks -> parent | "nolink"]
  sclock,  \* holder of sc.lock or "free"
  pc,      \* [thread -> program counter]
  cur,     \* reader: block the walk is at
  found,   \* reader: entry found ("none" until then)
  sawKnown,\* committer: cache.Get(key) found the map
  result,  \* reader: "pending", "miss" or the value
  last     \* the thread that made the last step (makes every edge self-describing for replay)

vars == <<known, bvs, link, sclock, pc, cur, found, sawKnown, result, last>>
Threads == Committers \cup Readers

\* nearest entry on the chain of b according to the static block tree
RECURSIVE Nearest(_)
Nearest(b) == IF b = "none" THEN "none"
              ELSE IF Write[b] # "none" THEN Write[b] ELSE Nearest(Parent[b])
Truth(b) == IF Nearest(b) \in {"none", "DEL"} THEN "miss" ELSE Nearest(b)

Init ==
  /\ known = (\E b \in Pre : Write[b] # "none")
  /\ bvs = [b \in Blocks |-> IF b \in Pre THEN Write[b] ELSE "none"]
  /\ link = [b \in Blocks |-> IF b \in Pre THEN Parent[b] ELSE "nolink"]
  /\ sclock = "free"
  /\ pc = [t \in Threads |-> IF t \in Committers THEN "c_lock" ELSE "r_key"]
  /\ cur = [r \in Readers |-> Query[r]]
  /\ found = [r \in Readers |-> "none"]
  /\ sawKnown = [c \in Committers |-> FALSE]
  /\ result = [r \in Readers |-> "pending"]
  /\ last = "init"

\* ---------------------------------------------------------------- committer of block c
CLock(c) == /\ pc[c] = "c_lock" /\ sclock = "free"
            /\ sclock' = c /\ pc' = [pc EXCEPT ![c] = "c_dup"]
            /\ UNCHANGED <<known, bvs, link, cur, found, sawKnown, result>>
CDup(c) ==  /\ pc[c] = "c_dup"            \* hashCache.Get(block): already committed?
            /\ IF link[c] # "nolink"
               THEN /\ sclock' = "free" /\ pc' = [pc EXCEPT ![c] = "done"]
               ELSE /\ sclock' = sclock /\ pc' = [pc EXCEPT ![c] = "c_bcmu"]
            /\ UNCHANGED <<known, bvs, link, cur, found, sawKnown, result>>
CBcMu(c) == /\ pc[c] = "c_bcmu"           \* bc.mu.Lock (never contended here)
            /\ pc' = [pc EXCEPT ![c] = IF Write[c] = "none" THEN "c_link" ELSE "c_key"]
            /\ UNCHANGED <<known, bvs, link, sclock, cur, found, sawKnown, result>>
CKey(c) ==  /\ pc[c] = "c_key"            \* sc.cache.Get(key)
            /\ sawKnown' = [sawKnown EXCEPT ![c] = known]
            /\ pc' = [pc EXCEPT ![c] = "c_val"]
            /\ UNCHANGED <<known, bvs, link, sclock, cur, found, result>>
CVal(c) ==  /\ pc[c] = "c_val"            \* bvs.Add(block, value) - into a private new map if the key was unknown
            /\ bvs' = [bvs EXCEPT ![c] = Write[c]]
            /\ pc' = [pc EXCEPT ![c] = "c_pub"]
            /\ UNCHANGED <<known, link, sclock, cur, found, sawKnown, result>>
CPub(c) ==  /\ pc[c] = "c_pub"            \* sc.cache.Add(key, bvs)
            /\ known' = TRUE
            /\ pc' = [pc EXCEPT ![c] = "c_link"]
            /\ UNCHANGED <<bvs, link, sclock, cur, found, sawKnown, result>>
CLink(c) == /\ pc[c] = "c_link"           \* hashCache.Add(block, prev); then unlock
            /\ link' = [link EXCEPT ![c] = Parent[c]]
            /\ sclock' = "free"
            /\ pc' = [pc EXCEPT ![c] = "done"]
            /\ UNCHANGED <<known, bvs, cur, found, sawKnown, result>>

\* a private map is invisible until published: readers look at bvs only when known; while a committer
\* holds an unpublished map no other committer can run (sc.lock), so one bvs variable suffices as long
\* as readers do not use it before `known` - which RKey guarantees.

\* ---------------------------------------------------------------- reader r
Finish(r, e) == result' = [result EXCEPT ![r] = IF e \in {"none", "DEL"} THEN "miss" ELSE e]

RKey(r) ==  /\ pc[r] = "r_key"            \* sc.cache.Get(key)
            /\ IF known THEN pc' = [pc EXCEPT ![r] = "r_own"] /\ result' = result
                        ELSE pc' = [pc EXCEPT ![r] = "done"] /\ Finish(r, "none")
            /\ UNCHANGED <<known, bvs, link, sclock, cur, found, sawKnown>>
ROwn(r) ==  /\ pc[r] = "r_own"            \* bvs.Get(queried block)
            /\ IF bvs[Query[r]] # "none"
               THEN pc' = [pc EXCEPT ![r] = "done"] /\ Finish(r, bvs[Query[r]])
               ELSE pc' = [pc EXCEPT ![r] = "r_link"] /\ result' = result
            /\ UNCHANGED <<known, bvs, link, sclock, cur, found, sawKnown>>
RLink(r) == /\ pc[r] = "r_link"           \* hashCache.Get(cur)
            /\ IF link[cur[r]] = "nolink"
               THEN pc' = [pc EXCEPT ![r] = "done"] /\ Finish(r, "none")
               ELSE pc' = [pc EXCEPT ![r] = "r_again"] /\ result' = result
            /\ UNCHANGED <<known, bvs, link, sclock, cur, found, sawKnown>>
RAgain(r) == /\ pc[r] = "r_again"         \* bvs.Get(cur) once more, now that cur's link is visible
             /\ IF bvs[cur[r]] # "none"
                THEN found' = [found EXCEPT ![r] = bvs[cur[r]]] /\ pc' = [pc EXCEPT ![r] = "r_memo"] /\ cur' = cur
                ELSE found' = found /\ pc' = [pc EXCEPT ![r] = "r_up"] /\ cur' = cur
             /\ UNCHANGED <<known, bvs, link, sclock, sawKnown, result>>
RUp(r) ==   /\ pc[r] = "r_up"             \* cur := prev; bvs.Get(cur)
            /\ LET p == link[cur[r]] IN
               /\ cur' = [cur EXCEPT ![r] = p]
               /\ IF p # "none" /\ bvs[p] # "none"
                  THEN found' = [found EXCEPT ![r] = bvs[p]] /\ pc' = [pc EXCEPT ![r] = "r_memo"]
                  ELSE found' = found /\ pc' = [pc EXCEPT ![r] = IF p = "none" THEN "r_gap" ELSE "r_link"]
            /\ UNCHANGED <<known, bvs, link, sclock, sawKnown, result>>
RGap(r) ==  /\ pc[r] = "r_gap"            \* hashCache.Get("") of a root's previous hash: a gap
            /\ pc' = [pc EXCEPT ![r] = "done"] /\ Finish(r, "none")
            /\ UNCHANGED <<known, bvs, link, sclock, cur, found, sawKnown>>
RMemo(r) == /\ pc[r] = "r_memo"           \* bvs.Add(queried block, found entry)
            /\ bvs' = [bvs EXCEPT ![Query[r]] = found[r]]
            /\ pc' = [pc EXCEPT ![r] = "done"] /\ Finish(r, found[r])
            /\ UNCHANGED <<known, link, sclock, cur, found, sawKnown>>

Step(t) == IF t \in Committers
           THEN CLock(t) \/ CDup(t) \/ CBcMu(t) \/ CKey(t) \/ CVal(t) \/ CPub(t) \/ CLink(t)
           ELSE RKey(t) \/ ROwn(t) \/ RLink(t) \/ RAgain(t) \/ RUp(t) \/ RGap(t) \/ RMemo(t)

Next == \E t \in Threads : Step(t) /\ last' = t
Spec == Init /\ [][Next]_vars

\* ---------------------------------------------------------------- properties
\* every finished lookup either missed or returned the block tree's value
Sound == \A r \in Readers : result[r] \in {"pending", "miss", Truth(Query[r])}
\* every entry of the per-block map (committed or memoised) is the block tree's nearest entry
EntriesRight == \A b \in Blocks : bvs[b] \in {"none", Nearest(b)}
\* once a commit has returned, the block's own write is there (nothing is evicted in this universe)
OwnWritesStay == \A c \in Committers \cup Pre :
                   (c \in Pre \/ pc[c] = "done") /\ Write[c] # "none" => bvs[c] = Write[c]
NoDeadlock == (\A t \in Threads : pc[t] = "done") \/ (\E t \in Threads : ENABLED Step(t))
=============================================================================
