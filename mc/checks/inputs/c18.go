// Package inputs holds the bounded exhaustive input enumerations (engine E4): C15, C18, C19.
package inputs

import (
	"fmt"
	"math"
	"math/big"
	"sort"
	"strconv"
	"sync"

	"github.com/0chain/common/core/currency"

	"verifmc/rt"
)

var (
	maxU64 = new(big.Int).SetUint64(math.MaxUint64)
	maxI64 = big.NewInt(math.MaxInt64)
	two64f = math.Ldexp(1, 64)
)

// uAlphabet constructs the unsigned operand alphabet: boundary neighbourhoods of the 64-bit range.
func uAlphabet(thorough bool) []uint64 {
	set := map[uint64]bool{}
	add := func(v uint64) { set[v] = true }
	for v := uint64(0); v <= 3; v++ {
		add(v)
	}
	for k := 1; k <= 63; k++ {
		p := uint64(1) << uint(k)
		add(p - 1)
		add(p)
		add(p + 1)
	}
	add(math.MaxUint64)
	add(math.MaxUint64 - 1)
	add(math.MaxUint64 - 2)
	p10 := uint64(1)
	for k := 0; k <= 19; k++ {
		add(p10 - 1)
		add(p10)
		add(p10 + 1)
		if k < 19 {
			p10 *= 10
		}
	}
	sq := uint64(4294967296) // sqrt(2^64)
	for d := uint64(0); d <= 2; d++ {
		add(sq - d)
		add(sq + d)
	}
	for d := uint64(0); d <= 2; d++ {
		add(uint64(math.MaxInt64) - d)
		add(uint64(math.MaxInt64) + d)
	}
	// prime factors of 2^64-1 and cofactors
	for _, f := range []uint64{3, 5, 17, 257, 641, 65537, 6700417} {
		add(f)
		add(math.MaxUint64 / f)
		add(math.MaxUint64/f + 1)
	}
	// pairs whose product is congruent to 0 mod 2^64
	for i := 1; i < 64; i++ {
		add(uint64(1) << uint(i) * 3)
		add(uint64(1) << uint(64-i) * 5)
	}
	// amounts with exactly 15 significant digits at every magnitude, also above 2^53 where a float
	// cannot hold every integer (format-then-parse must still return them)
	for _, d := range []uint64{123456789012345, 999999999999999, 553893176151156, 100000000000001, 922337203685477, 900719925474099, 314159265358979} {
		p := uint64(1)
		for k := 0; k <= 4; k++ {
			if d <= math.MaxInt64/p {
				add(d * p)
			}
			p *= 10
		}
	}
	if thorough {
		// a denser ladder: m * 2^k and m * 10^k for small odd m
		for _, m := range []uint64{3, 5, 7, 9, 11, 13, 15, 255, 257, 1023, 65535} {
			for k := 0; k < 64; k++ {
				add(m << uint(k))
				add(m<<uint(k) - 1)
			}
			p := uint64(1)
			for k := 0; k < 19; k++ {
				add(m * p)
				p *= 10
			}
		}
	}
	out := make([]uint64, 0, len(set))
	for v := range set {
		out = append(out, v)
	}
	sort.Slice(out, func(i, j int) bool { return out[i] < out[j] })
	return out
}

func iAlphabet(u []uint64) []int64 {
	set := map[int64]bool{math.MinInt64: true}
	for _, v := range u {
		if v <= math.MaxInt64 {
			set[int64(v)] = true
			set[-int64(v)] = true
		}
	}
	out := make([]int64, 0, len(set))
	for v := range set {
		out = append(out, v)
	}
	sort.Slice(out, func(i, j int) bool { return out[i] < out[j] })
	return out
}

func fAlphabet(u []uint64) []float64 {
	set := map[uint64]float64{}
	add := func(f float64) { set[math.Float64bits(f)] = f }
	add(0)
	add(math.Copysign(0, -1))
	add(math.SmallestNonzeroFloat64)
	add(-math.SmallestNonzeroFloat64)
	add(math.MaxFloat64)
	add(-math.MaxFloat64)
	add(math.Inf(1))
	add(math.Inf(-1))
	add(math.NaN())
	for _, v := range u {
		f := float64(v)
		add(f)
		add(math.Nextafter(f, math.Inf(1)))
		add(math.Nextafter(f, math.Inf(-1)))
		add(-f)
	}
	for _, f := range []float64{math.Ldexp(1, 53), math.Ldexp(1, 63), two64f} {
		add(f)
		add(math.Nextafter(f, math.Inf(1)))
		add(math.Nextafter(f, math.Inf(-1)))
	}
	for e := 0; e <= 12; e++ {
		for _, m := range []float64{1, 3, 7, 15, 123456789, 922337203, 999999999999999} {
			add(m / math.Pow(10, float64(e)))
		}
	}
	add(0.5)
	add(0.1)
	add(1e-10)
	add(1e-11)
	add(1.00000000005)
	add(922337203.6854775807)
	add(922337203.6854776)
	add(922337203.6854777)
	out := make([]float64, 0, len(set))
	for _, f := range set {
		out = append(out, f)
	}
	sort.Slice(out, func(i, j int) bool { return math.Float64bits(out[i]) < math.Float64bits(out[j]) })
	return out
}

func bigU(v uint64) *big.Int { return new(big.Int).SetUint64(v) }

type c18 struct {
	mu    sync.Mutex
	rep   *rt.Report
	evals int
	byFn  map[string]int
	seen  map[string]bool
}

func (c *c18) fail(fn, args, msg string) {
	c.mu.Lock()
	defer c.mu.Unlock()
	key := fn + ":" + msg[:min(len(msg), 30)]
	if c.seen[key] {
		c.rep.Add("violations_suppressed_duplicates", 1)
		return
	}
	c.seen[key] = true
	c.rep.Violate(fmt.Sprintf("%s(%s): %s", fn, args, msg), map[string]any{"fn": fn, "args": args})
}

// call runs f and converts a panic into a failure.
func (c *c18) call(fn, args string, f func() string) {
	c.mu.Lock()
	c.evals++
	c.byFn[fn]++
	c.mu.Unlock()
	defer func() {
		if r := recover(); r != nil {
			c.fail(fn, args, fmt.Sprintf("panic: %v", r))
		}
	}()
	if msg := f(); msg != "" {
		c.fail(fn, args, msg)
	}
}

// exactU judges an unsigned integer helper: want = exact result as big.Int.
func exactU(got currency.Coin, err error, want *big.Int) string {
	ok := want.Sign() >= 0 && want.Cmp(maxU64) <= 0
	if ok {
		if err != nil {
			return fmt.Sprintf("returned error %v although the exact result %s is representable", err, want)
		}
		if bigU(uint64(got)).Cmp(want) != 0 {
			return fmt.Sprintf("returned %d, exact result is %s", uint64(got), want)
		}
		return ""
	}
	if err == nil {
		return fmt.Sprintf("returned %d without error, exact result %s is not representable (wrapped or saturated amount)", uint64(got), want)
	}
	return ""
}

// floatWant: IEEE result truncated toward zero if in [0, 2^64); ok=false if an error is required.
func floatWant(r float64) (uint64, bool) {
	if math.IsNaN(r) || math.IsInf(r, 0) || r < 0 || r >= two64f {
		return 0, false
	}
	return uint64(math.Trunc(r)), true
}

func judgeFloat(got currency.Coin, err error, r float64, argBad bool) string {
	want, ok := floatWant(r)
	if argBad {
		ok = false
	}
	if ok {
		if err != nil {
			return fmt.Sprintf("returned error %v, IEEE result %v is in range", err, r)
		}
		if uint64(got) != want {
			return fmt.Sprintf("returned %d, IEEE result %v truncates to %d", uint64(got), r, want)
		}
		return ""
	}
	if err == nil {
		if r == 0 && math.Signbit(r) && !argBad {
			return "" // a result of -0.0 from non-negative arguments is accepted either way
		}
		return fmt.Sprintf("returned %d without error for a negative/NaN/infinite/too large argument or result (%v)", uint64(got), r)
	}
	return ""
}

// parseWant: the amount is the float's shortest round-trip decimal d; success iff d*10^10 is a
// non-negative integer <= MaxInt64.
func parseWant(f float64) (uint64, bool) {
	if math.IsNaN(f) || math.IsInf(f, 0) {
		return 0, false
	}
	d, ok := new(big.Rat).SetString(strconv.FormatFloat(f, 'e', -1, 64))
	if !ok {
		return 0, false
	}
	d.Mul(d, new(big.Rat).SetInt(new(big.Int).Exp(big.NewInt(10), big.NewInt(10), nil)))
	if !d.IsInt() || d.Sign() < 0 || d.Num().Cmp(maxI64) > 0 {
		return 0, false
	}
	return d.Num().Uint64(), true
}

func sigDigits(v uint64) int {
	s := strconv.FormatUint(v, 10)
	for len(s) > 1 && s[len(s)-1] == '0' {
		s = s[:len(s)-1]
	}
	return len(s)
}

func C18(tier rt.Tier) int {
	rep := rt.NewReport("C18", tier)
	c := &c18{rep: rep, byFn: map[string]int{}, seen: map[string]bool{}}
	U := uAlphabet(tier == rt.Thorough)
	I := iAlphabet(U)
	F := fAlphabet(U)
	type C = currency.Coin
	// the helpers are pure functions: the enumeration is spread over workers that call them
	// concurrently (a helper that keeps hidden shared state would also have to survive that)
	work := make(chan uint64, len(U))
	for _, a := range U {
		work <- a
	}
	close(work)
	var wg sync.WaitGroup
	for w := 0; w < rt.Workers(); w++ {
		wg.Add(1)
		go func() {
			defer wg.Done()
			for a := range work {
				c.perOperand(a, U, I, F)
			}
		}()
	}
	wg.Wait()
	c.rest(tier, U, I, F)
	// AUXILIARY (sampling, not part of the enumeration's verdict space): the single-argument helpers are
	// also hammered from all workers at once with rotated argument order; a pure function must give the
	// same answers then. This is the only part of C18 whose power depends on luck.
	passes := 30
	if tier == rt.Thorough {
		passes = 300
	}
	var wg2 sync.WaitGroup
	for w := 0; w < rt.Workers(); w++ {
		wg2.Add(1)
		go func(w int) {
			defer wg2.Done()
			for p := 0; p < passes; p++ {
				for i := range F {
					f := F[(i*7+w*131+p)%len(F)]
					g, err := func() (g currency.Coin, err error) {
						defer func() {
							if r := recover(); r != nil {
								err = fmt.Errorf("panic: %v", r)
							}
						}()
						return currency.ParseZCN(f)
					}()
					want, ok := parseWant(f)
					if (ok && (err != nil || uint64(g) != want)) || (!ok && err == nil) {
						c.fail("ParseZCN (called concurrently)", fmt.Sprintf("%v(bits %#x)", f, math.Float64bits(f)), fmt.Sprintf("returned %d, %v; sequentially the answer is %d, ok=%v", uint64(g), err, want, ok))
						return
					}
				}
			}
		}(w)
	}
	wg2.Wait()
	rep.Set("auxiliary_concurrent_calls", passes*len(F)*rt.Workers())
	return rep.Finish()
}

func (c *c18) perOperand(a uint64, U []uint64, I []int64, F []float64) {
	type C = currency.Coin
	{
		for _, b := range U {
			args := fmt.Sprintf("%d, %d", a, b)
			c.call("AddCoin", args, func() string {
				g, err := currency.AddCoin(C(a), C(b))
				return exactU(g, err, new(big.Int).Add(bigU(a), bigU(b)))
			})
			c.call("MinusCoin", args, func() string {
				g, err := currency.MinusCoin(C(a), C(b))
				return exactU(g, err, new(big.Int).Sub(bigU(a), bigU(b)))
			})
			c.call("MultCoin", args, func() string {
				g, err := currency.MultCoin(C(a), C(b))
				return exactU(g, err, new(big.Int).Mul(bigU(a), bigU(b)))
			})
			c.call("Min", args, func() string {
				g := currency.Min(C(a), C(b))
				w := a
				if b < a {
					w = b
				}
				if uint64(g) != w {
					return fmt.Sprintf("returned %d, want %d", uint64(g), w)
				}
				return ""
			})
		}
		for _, s := range I {
			args := fmt.Sprintf("%d, %d", a, s)
			// a negative signed argument may be refused (error) or handled exactly; never a wrong amount
			signed := func(g C, err error, want *big.Int) string {
				if s < 0 && err != nil {
					return ""
				}
				return exactU(g, err, want)
			}
			c.call("AddInt64", args, func() string {
				g, err := currency.AddInt64(C(a), s)
				return signed(g, err, new(big.Int).Add(bigU(a), big.NewInt(s)))
			})
			c.call("MinusInt64", args, func() string {
				g, err := currency.MinusInt64(C(a), s)
				return signed(g, err, new(big.Int).Sub(bigU(a), big.NewInt(s)))
			})
			c.call("DistributeCoin", args, func() string {
				q, r, err := currency.DistributeCoin(C(a), s)
				if s <= 0 {
					if err == nil {
						return fmt.Sprintf("returned (%d,%d) without error for divisor %d", uint64(q), uint64(r), s)
					}
					return ""
				}
				if err != nil {
					return fmt.Sprintf("returned error %v for a positive divisor", err)
				}
				wq, wr := new(big.Int).QuoRem(bigU(a), big.NewInt(s), new(big.Int))
				if bigU(uint64(q)).Cmp(wq) != 0 || bigU(uint64(r)).Cmp(wr) != 0 {
					return fmt.Sprintf("returned (%d,%d), exact quotient/remainder (%s,%s)", uint64(q), uint64(r), wq, wr)
				}
				return ""
			})
		}
		for _, f := range F {
			args := fmt.Sprintf("%d, %v(bits %#x)", a, f, math.Float64bits(f))
			c.call("MultFloat64", args, func() string {
				g, err := currency.MultFloat64(C(a), f)
				bad := math.IsNaN(f) || math.IsInf(f, 0) || (f < 0)
				return judgeFloat(g, err, float64(a)*f, bad)
			})
		}
		args := fmt.Sprint(a)
		c.call("Coin.Int64", args, func() string {
			g, err := C(a).Int64()
			if a <= math.MaxInt64 {
				if err != nil || g != int64(a) {
					return fmt.Sprintf("returned %d, %v; exact result representable", g, err)
				}
			} else if err == nil {
				return fmt.Sprintf("returned %d without error, %d does not fit int64", g, a)
			}
			return ""
		})
		c.call("Coin.Float64", args, func() string {
			g, err := C(a).Float64()
			if err != nil || g != float64(a) {
				return fmt.Sprintf("returned %v, %v; IEEE conversion gives %v", g, err, float64(a))
			}
			return ""
		})
		c.call("Coin.ToZCN", args, func() string {
			z, err := C(a).ToZCN()
			if a > math.MaxInt64 {
				if err == nil {
					return fmt.Sprintf("returned %v without error for an amount above MaxInt64", z)
				}
				return ""
			}
			if err != nil {
				return fmt.Sprintf("returned error %v", err)
			}
			if sigDigits(a) <= 15 {
				back, err := currency.ParseZCN(z)
				if err != nil || uint64(back) != a {
					return fmt.Sprintf("ToZCN = %v, ParseZCN of it = %d, %v; formatting then parsing must return the original amount (<= 15 significant digits)", z, uint64(back), err)
				}
			}
			return ""
		})
	}
}

func (c *c18) rest(tier rt.Tier, U []uint64, I []int64, F []float64) {
	type C = currency.Coin
	rep := c.rep
	for _, s := range I {
		c.call("Int64ToCoin", fmt.Sprint(s), func() string {
			g, err := currency.Int64ToCoin(s)
			return exactU(g, err, big.NewInt(s))
		})
	}
	for _, f := range F {
		args := fmt.Sprintf("%v(bits %#x)", f, math.Float64bits(f))
		c.call("Float64ToCoin", args, func() string {
			g, err := currency.Float64ToCoin(f)
			return judgeFloat(g, err, f, false)
		})
		c.call("ParseZCN", args, func() string {
			g, err := currency.ParseZCN(f)
			want, ok := parseWant(f)
			if ok {
				if err != nil || uint64(g) != want {
					return fmt.Sprintf("returned %d, %v; shortest decimal %s times 10^10 is the in-range integer %d", uint64(g), err, strconv.FormatFloat(f, 'g', -1, 64), want)
				}
			} else if err == nil {
				return fmt.Sprintf("returned %d without error; shortest decimal %s times 10^10 is not a non-negative integer within range", uint64(g), strconv.FormatFloat(f, 'g', -1, 64))
			}
			return ""
		})
	}
	// overflow frontiers: for EVERY multiplier b up to a bound, the operands around the largest a with
	// a*b <= 2^64-1 (both argument orders); for every alphabet operand a, the partners around the largest
	// b with a+b <= 2^64-1 and around a-b = 0. The fixed alphabet only holds a few such pairs.
	maxB := uint64(1) << 13
	if tier == rt.Thorough {
		maxB = 1 << 18
	}
	frontier := 0
	for b := uint64(1); b <= maxB; b++ {
		q := uint64(math.MaxUint64) / b
		for d := int64(-3); d <= 3; d++ {
			a := q + uint64(d)
			if (d < 0 && a > q) || (d > 0 && a < q) {
				continue // wrapped
			}
			for _, pr := range [][2]uint64{{a, b}, {b, a}} {
				x, y := pr[0], pr[1]
				frontier++
				c.call("MultCoin", fmt.Sprintf("%d, %d", x, y), func() string {
					g, err := currency.MultCoin(C(x), C(y))
					return exactU(g, err, new(big.Int).Mul(bigU(x), bigU(y)))
				})
			}
		}
	}
	for _, a := range U {
		for d := int64(-3); d <= 3; d++ {
			b := uint64(math.MaxUint64) - a + uint64(d)
			frontier++
			c.call("AddCoin", fmt.Sprintf("%d, %d", a, b), func() string {
				g, err := currency.AddCoin(C(a), C(b))
				return exactU(g, err, new(big.Int).Add(bigU(a), bigU(b)))
			})
			b2 := a + uint64(d)
			frontier++
			c.call("MinusCoin", fmt.Sprintf("%d, %d", a, b2), func() string {
				g, err := currency.MinusCoin(C(a), C(b2))
				return exactU(g, err, new(big.Int).Sub(bigU(a), bigU(b2)))
			})
		}
	}
	rep.Set("overflow_frontier_calls", frontier)
	// call ORDER: the helpers are pure, so the answer to a call must not depend on the call before it. Every
	// ordered pair (A, B) of second operands from a set whose members are equal modulo 2^8, 2^16, 2^31, 2^32,
	// 2^53 (what a hidden memo keyed by a truncated operand would confuse) is made back to back on this one
	// goroutine, for four first operands; both answers are judged.
	var M []uint64
	for _, v := range []uint64{0, 1, 2, 3, 7, 10, 1000, 4294967294} {
		for _, m := range []uint64{0, 1 << 8, 1 << 16, 1 << 31, 1 << 32, 1 << 33, 1 << 53, 1 << 62} {
			M = append(M, v+m)
		}
	}
	ordered := 0
	type pairFn struct {
		name string
		f    func(x, y uint64) string
	}
	fns := []pairFn{
		{"DistributeCoin", func(x, y uint64) string {
			if y > math.MaxInt64 {
				return ""
			}
			q, r, err := currency.DistributeCoin(C(x), int64(y))
			if y == 0 {
				if err == nil {
					return "returned without error for divisor 0"
				}
				return ""
			}
			if err != nil {
				return fmt.Sprintf("returned error %v for a positive divisor", err)
			}
			wq, wr := new(big.Int).QuoRem(bigU(x), bigU(y), new(big.Int))
			if bigU(uint64(q)).Cmp(wq) != 0 || bigU(uint64(r)).Cmp(wr) != 0 {
				return fmt.Sprintf("returned (%d,%d), exact quotient/remainder (%s,%s)", uint64(q), uint64(r), wq, wr)
			}
			return ""
		}},
		{"MultCoin", func(x, y uint64) string {
			g, err := currency.MultCoin(C(x), C(y))
			return exactU(g, err, new(big.Int).Mul(bigU(x), bigU(y)))
		}},
		{"AddCoin", func(x, y uint64) string {
			g, err := currency.AddCoin(C(x), C(y))
			return exactU(g, err, new(big.Int).Add(bigU(x), bigU(y)))
		}},
		{"MinusCoin", func(x, y uint64) string {
			g, err := currency.MinusCoin(C(x), C(y))
			return exactU(g, err, new(big.Int).Sub(bigU(x), bigU(y)))
		}},
	}
	for _, fn := range fns {
		for _, first := range []uint64{10000000000000, math.MaxUint64, 1, 4294967296} {
			for _, a := range M {
				for _, b := range M {
					ordered++
					if msg := fn.f(first, a); msg != "" {
						c.fail(fn.name, fmt.Sprintf("%d, %d", first, a), msg)
					}
					if msg := fn.f(first, b); msg != "" {
						c.fail(fn.name+" (called right after the same helper with second operand "+fmt.Sprint(a)+")", fmt.Sprintf("%d, %d", first, b), msg)
					}
				}
			}
		}
	}
	rep.Set("ordered_call_pairs", ordered)
	// full range 0..10^6 (quick) / 0..10^7 (thorough): format then parse is the identity
	top := uint64(1000000)
	if tier == rt.Thorough {
		top = 10000000
	}
	for a := uint64(0); a <= top; a++ {
		z, err := C(a).ToZCN()
		back, err2 := currency.ParseZCN(z)
		c.evals++
		c.byFn["ToZCN∘ParseZCN range"]++
		if err != nil || err2 != nil || uint64(back) != a {
			c.fail("ToZCN/ParseZCN", fmt.Sprint(a), fmt.Sprintf("round trip gives %d (%v, %v)", uint64(back), err, err2))
			break
		}
	}
	// the same identity in dense windows higher up, where one float step is worth a sizeable fraction of a coin
	// (from 2^49 coins) or more than a coin (from 2^53/10 coins = 524288 ZCN) up to the last amounts of 15
	// significant digits below 2^53 coins: every coin value divisible by 10 (15 significant digits) of a window
	win := uint64(60000)
	if tier == rt.Thorough {
		win = 600000
	}
	bands := 0
	for _, start := range []uint64{1 << 46, 1 << 49, 1 << 50, 1 << 51, 1 << 52, 5242880000000000, 6000000000000000, 7000000000000000, 8999999999000000, 1<<53 - 10*win - 10} {
		bands++
		base := (start + 9) / 10 * 10
		for i := uint64(0); i < win; i++ {
			a := base + 10*i
			z, err := C(a).ToZCN()
			back, err2 := currency.ParseZCN(z)
			c.evals++
			c.byFn["ToZCN∘ParseZCN windows"]++
			if err != nil || err2 != nil || uint64(back) != a {
				c.fail("ToZCN/ParseZCN", fmt.Sprint(a), fmt.Sprintf("round trip of an amount with at most 15 significant digits gives %d (%v, %v)", uint64(back), err, err2))
				break
			}
		}
	}
	rep.Set("format_parse_windows", bands)
	rep.Set("evaluations", c.evals)
	rep.Set("states", len(U)+len(I)+len(F))
	rep.Set("transitions", c.evals)
	rep.Set("traces_validated_against_impl", c.evals)
	rep.Set("distinct_nontrivial", len(U)*len(U)+len(U)*len(I)+len(U)*len(F)+len(I)+2*len(F))
	rep.Set("per_helper_evaluations", c.byFn)
	rep.Set("alphabet_sizes", map[string]int{"unsigned": len(U), "signed": len(I), "float": len(F)})
	rep.Set("rule", "complete cross product of constructed operand alphabets (0..3; 2^k-1,2^k,2^k+1; 10^k±1; sqrt(2^64)±2; MaxInt64±2; MaxUint64-2..; prime factors of 2^64-1 and cofactors; pairs with product ≡ 0 mod 2^64; signed mirror + MinInt64; floats: ±0, denormals, every unsigned value converted and its two neighbours, 2^53/2^63/2^64 neighbourhoods, MaxFloat64, ±Inf, NaN, decimal fractions m*10^-e) for every helper, judged with math/big and strconv shortest-decimal oracles; 'states' = alphabet size, distinct_nontrivial = number of distinct argument tuples")
	rep.Sample(map[string]any{"helper": "MultCoin", "args": []uint64{U[len(U)/2], U[len(U)/3]}})
	rep.Sample(map[string]any{"helper": "ParseZCN", "arg": F[len(F)/2]})
	rep.Assumption("for a negative int64 argument either an error or the exact result is accepted (the property text leaves it open); -0.0 is accepted either way; Coin.Float64 is judged as IEEE conversion")
}
