// Package conc holds the schedule-exploration scenarios (C08, C16, C20). It is only
// meaningful in a binary built with the sync->vsync overlay (mcsched); the same
// bodies run free under -race in mcrace.
package conc

import (
	"fmt"
	"os"
	"sort"
	"strings"

	"github.com/0chain/common/core/logging"
	"github.com/0chain/common/core/statecache"
	"go.uber.org/zap"

	"verifmc/explore/sched"
)

func init() { logging.Logger = zap.NewNop() }

type blk struct {
	hash, prev string
	sets       map[string]string
	removes    []string
}

func mkBlock(sc *statecache.StateCache, b blk) *statecache.BlockCache {
	bc := statecache.NewBlockCache(sc, statecache.Block{Hash: b.hash, PrevHash: b.prev})
	tc := statecache.NewTransactionCache(bc)
	for k, v := range b.sets {
		tc.Set(k, statecache.String(v))
	}
	for _, k := range b.removes {
		tc.Remove(k)
	}
	tc.Commit()
	return bc
}

func show(v statecache.Value, ok bool) string {
	if !ok {
		return "miss"
	}
	return fmt.Sprint(v)
}

// allowed: a lookup may miss or return exactly want ("" want = must miss).
func sound(got, want string) bool { return got == "miss" || (want != "" && got == want) }

type c08 struct {
	name, doc string
	chain     []blk             // committed sequentially before the threads start
	commits   []blk             // each committed by its own thread
	reads     [][2]string       // (key, block) looked up by one thread each through StateCache.Get
	bcReads   []blk             // lookups of key "k" through an uncommitted BlockCache with this (hash, prev)
	tcReads   []blk             // lookups of key "k" through a TransactionCache of an uncommitted block (hash, prev)
	truth     map[string]string // "key@block" -> value determined by the block tree ("" = removed / never written)
	mustHit   []string          // "key@block" that must hit after all commits returned
}

func (c c08) scenario() sched.Scenario {
	return sched.Scenario{Name: c.name, Doc: c.doc, Make: func() ([]func(), func() (string, string)) {
		sc := statecache.NewStateCache()
		for _, b := range c.chain {
			mkBlock(sc, b).Commit()
		}
		var bodies []func()
		var res []string
		add := func(label string, f func() string) {
			i := len(res)
			res = append(res, "")
			bodies = append(bodies, func() { res[i] = label + "=" + f() })
		}
		for _, b := range c.commits {
			bc := mkBlock(sc, b)
			add("commit("+b.hash+")", func() string { bc.Commit(); return "done" })
		}
		for _, r := range c.reads {
			r := r
			add("get("+r[0]+"@"+r[1]+")", func() string { return show(sc.Get(r[0], r[1])) })
		}
		for _, b := range c.bcReads {
			bc := statecache.NewBlockCache(sc, statecache.Block{Hash: b.hash, PrevHash: b.prev})
			add("get(k@"+b.hash+" via block cache on "+b.prev+")", func() string { return show(bc.Get("k")) })
		}
		for _, b := range c.tcReads {
			tc := statecache.NewTransactionCache(statecache.NewBlockCache(sc, statecache.Block{Hash: b.hash, PrevHash: b.prev}))
			add("get(k@"+b.hash+" via txn cache on "+b.prev+")", func() string { return show(tc.Get("k")) })
		}
		judge := func() (string, string) {
			fail := ""
			check := func(label, got, at string) {
				want, known := c.truth[at]
				if !known {
					panic("scenario " + c.name + ": no truth for " + at)
				}
				if !sound(got, want) && fail == "" {
					fail = fmt.Sprintf("%s returned %s; the block tree determines %q (or a miss)", label, got, want)
				}
			}
			n := len(c.commits)
			for i, r := range c.reads {
				got := strings.SplitN(res[n+i], "=", 2)[1]
				check(res[n+i], got, r[0]+"@"+r[1])
			}
			for i, b := range c.bcReads {
				got := strings.SplitN(res[n+len(c.reads)+i], "=", 2)[1]
				check(res[n+len(c.reads)+i], got, "k@"+b.hash)
			}
			for i, b := range c.tcReads {
				j := n + len(c.reads) + len(c.bcReads) + i
				check(res[j], strings.SplitN(res[j], "=", 2)[1], "k@"+b.hash)
			}
			// post phase: sequential lookups
			var post []string
			for _, at := range c.mustHit {
				kb := strings.SplitN(at, "@", 2)
				got := show(sc.Get(kb[0], kb[1]))
				post = append(post, "post("+at+")="+got)
				if got != c.truth[at] && fail == "" {
					fail = fmt.Sprintf("after all commits returned, lookup %s = %s; block %s wrote %q itself and nothing was evicted", at, got, kb[1], c.truth[at])
				}
			}
			ats := make([]string, 0, len(c.truth))
			for at := range c.truth {
				ats = append(ats, at)
			}
			sort.Strings(ats)
			for _, at := range ats {
				// every other lookup must stay sound afterwards
				kb := strings.SplitN(at, "@", 2)
				got := show(sc.Get(kb[0], kb[1]))
				if !sound(got, c.truth[at]) && fail == "" {
					fail = fmt.Sprintf("after the concurrent phase, lookup %s = %s; the block tree determines %q (or a miss)", at, got, c.truth[at])
				}
			}
			return strings.Join(res, " ") + " | " + strings.Join(post, " "), fail
		}
		return bodies, judge
	}}
}

var base = []blk{{hash: "G", prev: "", sets: map[string]string{"k": "1"}}, {hash: "A", prev: "G", sets: map[string]string{"j": "x"}}}

// C08Scenarios: one committing block (or two) with concurrent lookups at its
// ancestors, itself and its descendants. Each committing block writes one key.
func C08Scenarios() []sched.Scenario {
	cs := []c08{
		{name: "S1-commit-vs-get-self-and-parent", doc: "G:k=1 <- A <- B:k=2; commit(B) || Get(k,B) || Get(k,A)",
			chain: base, commits: []blk{{hash: "B", prev: "A", sets: map[string]string{"k": "2"}}},
			reads: [][2]string{{"k", "B"}, {"k", "A"}},
			truth: map[string]string{"k@B": "2", "k@A": "1", "k@G": "1"}, mustHit: []string{"k@B"}},
		{name: "S2-commit-vs-get-through-child-blockcache", doc: "commit(B:k=2) || BlockCache(C on B).Get(k) || Get(k,B)",
			chain: base, commits: []blk{{hash: "B", prev: "A", sets: map[string]string{"k": "2"}}},
			reads: [][2]string{{"k", "B"}}, bcReads: []blk{{hash: "C", prev: "B"}},
			truth: map[string]string{"k@B": "2", "k@A": "1", "k@G": "1", "k@C": "2"}, mustHit: []string{"k@B"}},
		{name: "S3-sibling-commits", doc: "commit(B:k=2) || commit(B':k=3) (siblings under A) || Get(k,A)",
			chain: base, commits: []blk{{hash: "B", prev: "A", sets: map[string]string{"k": "2"}}, {hash: "B'", prev: "A", sets: map[string]string{"k": "3"}}},
			reads: [][2]string{{"k", "A"}},
			truth: map[string]string{"k@B": "2", "k@B'": "3", "k@A": "1", "k@G": "1"}, mustHit: []string{"k@B", "k@B'"}},
		{name: "S4-same-hash-twice", doc: "two committers of the same block B:k=2 || Get(k,B)",
			chain: base, commits: []blk{{hash: "B", prev: "A", sets: map[string]string{"k": "2"}}, {hash: "B", prev: "A", sets: map[string]string{"k": "2"}}},
			reads: [][2]string{{"k", "B"}},
			truth: map[string]string{"k@B": "2", "k@A": "1", "k@G": "1"}, mustHit: []string{"k@B"}},
		{name: "S5-commit-removal", doc: "commit(B: remove k) || Get(k,B) || BlockCache(C on B).Get(k)",
			chain: base, commits: []blk{{hash: "B", prev: "A", removes: []string{"k"}}},
			reads: [][2]string{{"k", "B"}}, bcReads: []blk{{hash: "C", prev: "B"}},
			truth: map[string]string{"k@B": "", "k@A": "1", "k@G": "1", "k@C": ""}},
		{name: "S6-key-not-cached-yet", doc: "G:j <- A; commit(B:k=2), k unknown to the cache || Get(k,B) || Get(k,A)",
			chain:   []blk{{hash: "G", prev: "", sets: map[string]string{"j": "1"}}, {hash: "A", prev: "G", sets: map[string]string{"j": "x"}}},
			commits: []blk{{hash: "B", prev: "A", sets: map[string]string{"k": "2"}}},
			reads:   [][2]string{{"k", "B"}, {"k", "A"}},
			truth:   map[string]string{"k@B": "2", "k@A": "", "k@G": ""}, mustHit: []string{"k@B"}},
		{name: "S7-child-committed-while-parent-commits", doc: "G:k=1; commit(A:k=5) || commit(B on A: j) || Get(k,B)",
			chain:   []blk{{hash: "G", prev: "", sets: map[string]string{"k": "1"}}},
			commits: []blk{{hash: "A", prev: "G", sets: map[string]string{"k": "5"}}, {hash: "B", prev: "A", sets: map[string]string{"j": "y"}}},
			reads:   [][2]string{{"k", "B"}},
			truth:   map[string]string{"k@B": "5", "k@A": "5", "k@G": "1"}, mustHit: []string{"k@A"}},
		{name: "S8-deep-chain-two-levels", doc: "G:k=1 <- A <- B <- C committed without k; commit(D on C: k=4) || Get(k,C) || Get(k,D)",
			chain:   append(append([]blk{}, base...), blk{hash: "B", prev: "A", sets: map[string]string{"j": "y"}}, blk{hash: "C", prev: "B", sets: map[string]string{"j": "z"}}),
			commits: []blk{{hash: "D", prev: "C", sets: map[string]string{"k": "4"}}},
			reads:   [][2]string{{"k", "C"}, {"k", "D"}},
			truth:   map[string]string{"k@D": "4", "k@C": "1", "k@B": "1", "k@A": "1", "k@G": "1"}, mustHit: []string{"k@D"}},
		{name: "S9-commit-vs-child-transaction-cache", doc: "commit(B:k=2) || TransactionCache(block C on B).Get(k) || Get(k,A)",
			chain: base, commits: []blk{{hash: "B", prev: "A", sets: map[string]string{"k": "2"}}},
			reads: [][2]string{{"k", "A"}}, tcReads: []blk{{hash: "C", prev: "B"}},
			truth: map[string]string{"k@B": "2", "k@A": "1", "k@G": "1", "k@C": "2"}, mustHit: []string{"k@B"}},
		{name: "S10-two-readers-same-block", doc: "commit(B:k=2) || Get(k,B) || Get(k,B): both readers may memoise",
			chain: base, commits: []blk{{hash: "B", prev: "A", sets: map[string]string{"k": "2"}}},
			reads: [][2]string{{"k", "B"}, {"k", "B"}},
			truth: map[string]string{"k@B": "2", "k@A": "1", "k@G": "1"}, mustHit: []string{"k@B"}},
		{name: "S11-two-committers-key-unknown", doc: "G:j <- A; commit(B:k=2) || commit(B':k=3), the cache has no map for k yet || Get(k,B)",
			chain:   []blk{{hash: "G", prev: "", sets: map[string]string{"j": "1"}}, {hash: "A", prev: "G", sets: map[string]string{"j": "x"}}},
			commits: []blk{{hash: "B", prev: "A", sets: map[string]string{"k": "2"}}, {hash: "B'", prev: "A", sets: map[string]string{"k": "3"}}},
			reads:   [][2]string{{"k", "B"}},
			truth:   map[string]string{"k@B": "2", "k@B'": "3", "k@A": "", "k@G": ""}, mustHit: []string{"k@B", "k@B'"}},
		{name: "S12-parent-and-child-commit-key-unknown", doc: "G:j; commit(A:k=5) || commit(B on A:k=6), no map for k yet || Get(k,B)",
			chain:   []blk{{hash: "G", prev: "", sets: map[string]string{"j": "1"}}},
			commits: []blk{{hash: "A", prev: "G", sets: map[string]string{"k": "5"}}, {hash: "B", prev: "A", sets: map[string]string{"k": "6"}}},
			reads:   [][2]string{{"k", "B"}},
			truth:   map[string]string{"k@B": "6", "k@A": "5", "k@G": ""}, mustHit: []string{"k@A", "k@B"}},
	}
	var out []sched.Scenario
	for _, c := range cs {
		out = append(out, c.scenario())
	}
	out = append(out, txnCommitVsSet(), blockReadVsTxnCommit(false, false), blockReadVsTxnCommit(true, false), blockReadVsTxnCommit(false, true), blockReadVsRewrite(), commitVsForgetAndRemoval(), blockCommitVsTxnCommitIntoIt(), bigSiblingCommits(300))
	return out
}

// bigSiblingCommits: the size dimension of a schedule question. Two sibling blocks that each write n keys (n above
// 256, the batch size used elsewhere in this code base) are committed at the same time: once both commits have
// returned, every key of each block is found at that block with that block's value (far below every capacity).
func bigSiblingCommits(n int) sched.Scenario {
	return sched.Scenario{Name: fmt.Sprintf("S20-big-sibling-commits-%d-keys", n), Doc: fmt.Sprintf("A <- B1, B2 (siblings), each writing %d keys: commit(B1) || commit(B2); afterwards every key at its block", n),
		Make: func() ([]func(), func() (string, string)) {
			sc := statecache.NewStateCache()
			old := map[string]string{}
			s1, s2 := map[string]string{}, map[string]string{}
			for i := 0; i < n; i++ {
				k := fmt.Sprintf("key%d", i)
				old[k], s1[k], s2[k] = "old", fmt.Sprintf("b1-%d", i), fmt.Sprintf("b2-%d", i)
			}
			mkBlock(sc, blk{hash: "A", prev: "", sets: old}).Commit()
			b1 := mkBlock(sc, blk{hash: "B1", prev: "A", sets: s1})
			b2 := mkBlock(sc, blk{hash: "B2", prev: "A", sets: s2})
			bodies := []func(){func() { b1.Commit() }, func() { b2.Commit() }}
			judge := func() (string, string) {
				bad, first := 0, ""
				for i := 0; i < n; i++ {
					k := fmt.Sprintf("key%d", i)
					for _, q := range [][2]string{{"B1", s1[k]}, {"B2", s2[k]}, {"A", "old"}} {
						if got := show(sc.Get(k, q[0])); got != q[1] {
							bad++
							if first == "" {
								first = fmt.Sprintf("after both commits returned, lookup %s@%s = %s; the block wrote %s itself and nothing can have been evicted", k, q[0], got, q[1])
							}
						}
					}
				}
				if bad > 0 {
					// which keys are affected may depend on the code's own map iteration order: outcome and message are
					// kept free of it, so that the replay-twice gate compares like with like (details go to stderr)
					fmt.Fprintf(os.Stderr, "  S20 detail: %s (%d of %d lookups wrong)\n", first, bad, 3*n)
					return "some-keys-wrong", "after both commits returned, some keys written by a committed block are not found with that block's value at that block (nothing can have been evicted); see the S20 detail line for one of them"
				}
				return "all-found", ""
			}
			return bodies, judge
		}}
}

// blockCommitVsTxnCommitIntoIt: block B is being committed while a transaction still commits its write into B.
// The write call returns: the write is then either part of what B published, or still pending in B - never gone.
func blockCommitVsTxnCommitIntoIt() sched.Scenario {
	return sched.Scenario{Name: "S19-block-commit-vs-txn-commit-into-it", Doc: "G:k=1 <- A; block B on A (holds j): B.Commit() || txn{Set(k,2); Commit into B} || BlockCache(B).Get(k)",
		Make: func() ([]func(), func() (string, string)) {
			sc := statecache.NewStateCache()
			for _, b := range base {
				mkBlock(sc, b).Commit()
			}
			bc := mkBlock(sc, blk{hash: "B", prev: "A", sets: map[string]string{"j": "y"}})
			tc := statecache.NewTransactionCache(bc)
			var seen string
			bodies := []func(){
				func() { bc.Commit() },
				func() { tc.Set("k", statecache.String("2")); tc.Commit() },
				func() { seen = show(bc.Get("k")) },
			}
			judge := func() (string, string) {
				fail := ""
				if seen != "1" && seen != "2" && seen != "miss" {
					fail = "the concurrent read through the block returned " + seen
				}
				pub, pend := show(sc.Get("k", "B")), show(bc.Get("k"))
				if pub != "2" && pend != "2" && fail == "" {
					fail = fmt.Sprintf("the transaction's commit of k=2 into block B returned, but k=2 is neither published at B (lookup k@B = %s) nor pending in the block (BlockCache(B).Get(k) = %s)", pub, pend)
				}
				if pub != "2" && pub != "miss" && pub != "1" && fail == "" {
					fail = "lookup k@B = " + pub
				}
				return fmt.Sprintf("seen=%s published=%s pending=%s", seen, pub, pend), fail
			}
			return bodies, judge
		}}
}

// commitVsForgetAndRemoval: block P (k=v1) commits while another goroutine first makes the cache forget k
// (StateCache.Remove: the key's whole per-block map is dropped) and then commits P's child C, which removes k.
// C's removal comes after the forgetting, so nothing may bring k back at C: every lookup of k at C, during
// and after, must miss.
func commitVsForgetAndRemoval() sched.Scenario {
	return sched.Scenario{Name: "S18-commit-vs-forget-then-child-removal", Doc: "G:k=1 <- A; commit(P on A: k=v1) || { StateCache.Remove(k); commit(C on P: remove k) } || Get(k,C)",
		Make: func() ([]func(), func() (string, string)) {
			sc := statecache.NewStateCache()
			for _, b := range base {
				mkBlock(sc, b).Commit()
			}
			p := mkBlock(sc, blk{hash: "P", prev: "A", sets: map[string]string{"k": "v1"}})
			c := mkBlock(sc, blk{hash: "C", prev: "P", removes: []string{"k"}})
			var seen string
			bodies := []func(){
				func() { p.Commit() },
				func() { sc.Remove("k"); c.Commit() },
				func() { seen = show(sc.Get("k", "C")) },
			}
			judge := func() (string, string) {
				fail := ""
				// the concurrent lookup may run before C's commit: then it sees whatever the chain below C holds
				if seen != "miss" && seen != "v1" && seen != "1" {
					fail = "the concurrent lookup k@C returned " + seen
				}
				after := show(sc.Get("k", "C"))
				if after != "miss" && fail == "" {
					fail = "after both commits returned, lookup k@C = " + after + "; block C removed k after the cache had been made to forget the key, so nothing can hold an older value for C"
				}
				if child := show(statecache.NewBlockCache(sc, statecache.Block{Hash: "D", PrevHash: "C"}).Get("k")); child != "miss" && fail == "" {
					fail = "a child block of C reads k = " + child + "; C removed k"
				}
				return "seen=" + seen + " after=" + after, fail
			}
			return bodies, judge
		}}
}

// mval is a mutable cache value (as trie nodes are): Clone copies, CopyFrom overwrites in place.
type mval struct{ A, B, C int }

// Reading and overwriting the object are marked as accesses (Touch): the cache must never let one goroutine
// copy an object while another overwrites it.
func (m *mval) Clone() statecache.Value {
	touch(m, false, "cached value object (Clone)")
	c := *m
	return &c
}

func (m *mval) CopyFrom(v interface{}) bool {
	o, ok := v.(*mval)
	if ok {
		touch(m, true, "cached value object (CopyFrom)")
		m.A, m.B, m.C = o.A, o.B, o.C
	}
	return ok
}

// blockReadVsRewrite: the open block B already holds a live entry for k (committed into it by an earlier
// transaction); a second transaction rewrites k and commits while another goroutine reads k through the
// block. Values are mutable objects: the read must return one of the two values whole, never a mix, and
// what it returns must not change afterwards.
func blockReadVsRewrite() sched.Scenario {
	return sched.Scenario{Name: "S17-block-read-vs-rewrite-of-live-entry", Doc: "open block B holds k={1,1,1} from txn1; txn2{Set(k,{2,2,2}); Commit} || BlockCache(B).Get(k) (mutable values)",
		Make: func() ([]func(), func() (string, string)) {
			sc := statecache.NewStateCache()
			for _, b := range base {
				mkBlock(sc, b).Commit()
			}
			bc := statecache.NewBlockCache(sc, statecache.Block{Hash: "B", PrevHash: "A"})
			tc1 := statecache.NewTransactionCache(bc)
			tc1.Set("k", &mval{1, 1, 1})
			tc1.Commit()
			tc2 := statecache.NewTransactionCache(bc)
			var got statecache.Value
			var ok bool
			bodies := []func(){
				func() { tc2.Set("k", &mval{2, 2, 2}); tc2.Commit() },
				func() { got, ok = bc.Get("k") },
			}
			judge := func() (string, string) {
				fail := ""
				seen := show(got, ok)
				if seen != "&{1 1 1}" && seen != "&{2 2 2}" {
					fail = "the concurrent read returned " + seen + "; the block held {1 1 1} and the committing transaction wrote {2 2 2}"
				}
				after := show(bc.Get("k"))
				if after != "&{2 2 2}" && fail == "" {
					fail = "after the second transaction's commit returned, BlockCache(B).Get(k) = " + after
				}
				if again := show(got, ok); again != seen && fail == "" {
					fail = "the value handed out by the concurrent read changed afterwards: " + seen + " -> " + again
				}
				return "seen=" + seen + " after=" + after, fail
			}
			return bodies, judge
		}}
}

// blockReadVsTxnCommit: on one not yet committed block B (on A, ancestors hold k=1) a transaction writes
// (or removes) k and commits into the block while another goroutine reads k through the block (directly or
// through its own transaction cache). The read may see the ancestor's value or the new one; once the
// writer's commit has returned the block answers with the write, and so does the state cache after B commits.
func blockReadVsTxnCommit(remove, viaTxn bool) sched.Scenario {
	name := "S14-block-read-vs-txn-commit"
	doc := "G:k=1 <- A; open block B on A: txn{Set(k,2); Commit} || BlockCache(B).Get(k)"
	want := "2"
	if remove {
		name, doc, want = "S15-block-read-vs-txn-commit-removal", "G:k=1 <- A; open block B on A: txn{Remove(k); Commit} || BlockCache(B).Get(k)", "miss"
	}
	if viaTxn {
		name, doc = "S16-txn-read-vs-txn-commit", "G:k=1 <- A; open block B on A: txn1{Set(k,2); Commit} || txn2.Get(k)"
	}
	return sched.Scenario{Name: name, Doc: doc,
		Make: func() ([]func(), func() (string, string)) {
			sc := statecache.NewStateCache()
			for _, b := range base {
				mkBlock(sc, b).Commit()
			}
			bc := statecache.NewBlockCache(sc, statecache.Block{Hash: "B", PrevHash: "A"})
			tcW := statecache.NewTransactionCache(bc)
			tcR := statecache.NewTransactionCache(bc)
			var seen string
			bodies := []func(){
				func() {
					if remove {
						tcW.Remove("k")
					} else {
						tcW.Set("k", statecache.String("2"))
					}
					tcW.Commit()
				},
				func() {
					if viaTxn {
						seen = show(tcR.Get("k"))
					} else {
						seen = show(bc.Get("k"))
					}
				},
			}
			judge := func() (string, string) {
				fail := ""
				if seen != "1" && seen != want && seen != "miss" {
					fail = "the concurrent read returned " + seen + "; only the ancestor's value 1, the transaction's write (" + want + ") or a miss are possible"
				}
				after := show(bc.Get("k"))
				if after != want && fail == "" {
					fail = fmt.Sprintf("after the transaction's commit into block B returned, BlockCache(B).Get(k) = %s; the block's own write is %s", after, want)
				}
				bc.Commit()
				atB := show(sc.Get("k", "B"))
				if atB != want && fail == "" {
					fail = fmt.Sprintf("after block B was committed, lookup k@B = %s; block B wrote %s itself and nothing was evicted", atB, want)
				}
				child := show(statecache.NewBlockCache(sc, statecache.Block{Hash: "C", PrevHash: "B"}).Get("k"))
				if child != want && child != "miss" && fail == "" {
					fail = fmt.Sprintf("a child block of B reads k = %s; B's value is %s", child, want)
				}
				if a := show(sc.Get("k", "A")); a != "1" && a != "miss" && fail == "" {
					fail = "lookup k@A = " + a + "; the block tree determines 1"
				}
				return fmt.Sprintf("seen=%s after=%s k@B=%s child=%s", seen, after, atB, child), fail
			}
			return bodies, judge
		}}
}

// txnCommitVsSet: one goroutine commits a transaction cache while another still writes through it: no
// acknowledged write may get lost (it is either flushed by this commit or still there for the next one).
func txnCommitVsSet() sched.Scenario {
	return sched.Scenario{Name: "S13-txn-commit-vs-set", Doc: "TransactionCache.Commit || Set/Remove through the same transaction cache || Get",
		Make: func() ([]func(), func() (string, string)) {
			sc := statecache.NewStateCache()
			bc := statecache.NewBlockCache(sc, statecache.Block{Hash: "B", PrevHash: "A"})
			tc := statecache.NewTransactionCache(bc)
			tc.Set("k0", statecache.String("v0"))
			var seen string
			bodies := []func(){
				func() { tc.Commit() },
				func() { tc.Set("k1", statecache.String("v1")); tc.Set("k2", statecache.String("v2")) },
				func() { seen = show(tc.Get("k0")) },
			}
			judge := func() (string, string) {
				fail := ""
				if seen != "v0" {
					fail = "Get(k0) through the transaction cache returned " + seen + " while k0=v0 was set before and never removed"
				}
				// a later, quiescent commit flushes whatever is still pending
				tc.Commit()
				var got []string
				for _, k := range []string{"k0", "k1", "k2"} {
					v := show(bc.Get(k))
					got = append(got, k+"="+v)
					if want := "v" + k[1:]; v != want && fail == "" {
						fail = fmt.Sprintf("after the transaction cache was committed again, the block cache has %s=%s; the write %s=%s had returned before", k, v, k, want)
					}
				}
				return "seen=" + seen + " " + strings.Join(got, " "), fail
			}
			return bodies, judge
		}}
}

func schedPoint() { vsyncPoint() }
