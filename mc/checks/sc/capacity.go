package sc

import (
	"fmt"

	"github.com/0chain/common/core/statecache"

	"verifmc/rt"
)

// capacityScenarios: macro-event universes around the per-key capacity (200 block entries per key)
// and the ancestor-link capacity (2000). A hit must still be right when an intermediate entry has
// been evicted while an older ancestor's entry survives (LRU order is by use, so a re-read ancestor
// outlives a newer descendant entry).
func capacityScenarios(rep *rt.Report) {
	commit := func(sc *statecache.StateCache, hash, prev string, kv map[string]string) {
		bc := statecache.NewBlockCache(sc, statecache.Block{Hash: hash, PrevHash: prev})
		tc := statecache.NewTransactionCache(bc)
		for k, v := range kv {
			tc.Set(k, statecache.String(v))
		}
		tc.Commit()
		bc.Commit()
	}
	for _, siblings := range []int{150, 197, 198, 199, 200, 260} {
		for _, reread := range []bool{false, true} {
			sc := statecache.NewStateCache()
			commit(sc, "b1", "b0", map[string]string{"k": "1"})
			commit(sc, "b2", "b1", map[string]string{"j": "x"})
			commit(sc, "b3", "b2", map[string]string{"k": "3"})
			commit(sc, "b4", "b3", map[string]string{"j": "y"})
			if reread {
				sc.Get("k", "b1")
			}
			for i := 0; i < siblings; i++ {
				commit(sc, fmt.Sprintf("s%d", i), "b1", map[string]string{"k": fmt.Sprintf("s%d", i)})
			}
			_, maxPerKey, _ := dumpSC(sc)
			v, ok := sc.Get("k", "b4")
			rep.Add("capacity_scenarios", 1)
			name := fmt.Sprintf("chain b1:k=1 <- b2 <- b3:k=3 <- b4; reread(k,b1)=%v; %d sibling blocks of b2 writing k; Get(k,b4)", reread, siblings)
			if ok && render(v) != "3" {
				msg := fmt.Sprintf("%s returned %s; the value on b4's chain is 3", name, render(v))
				// discriminator: attributed to the capacity finding only if the per-key map is at its capacity (something was evicted)
				if haveDump && maxPerKey >= 200 && rt.OpenFinding("C06-capacity-eviction") {
					rep.KnownHit("C06-capacity-eviction", name, msg)
					continue
				}
				rep.Violate(msg, map[string]any{"scenario": name})
			}
		}
	}
}
