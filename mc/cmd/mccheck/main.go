// mccheck runs one property check: mccheck <ID> <quick|thorough> | mccheck <ID> --replay <file>
package main

import (
	"fmt"
	"os"
	"os/exec"
	"strings"

	"verifmc/checks/inputs"
	"verifmc/checks/mpt"
	"verifmc/checks/sc"
	"verifmc/checks/wm"
	"verifmc/rt"
)

var checks = map[string]func(rt.Tier) int{
	"C01": mpt.C01,
	"C02": mpt.C02,
	"C03": mpt.C03,
	"C04": mpt.C04,
	"C05": mpt.C05,
	"C06": sc.C06,
	"C07": sc.C07,
	"C09": wm.C09,
	"C10": wm.C10,
	"C11": wm.C11,
	"C12": wm.C12,
	"C13": wm.C13,
	"C14": mpt.C14,
	"C17": mpt.C17,
	"C15": inputs.C15,
	"C18": inputs.C18,
	"C19": inputs.C19,
}

func main() {
	if len(os.Args) < 3 {
		fmt.Fprintln(os.Stderr, "usage: mccheck <ID> quick|thorough")
		os.Exit(2)
	}
	f, ok := checks[os.Args[1]]
	if !ok {
		fmt.Fprintln(os.Stderr, "unknown check", os.Args[1])
		os.Exit(2)
	}
	if os.Getenv("VERIF_CHILD") == "" && os.Getenv("VERIF_NO_SUPERVISOR") == "" {
		os.Exit(supervise(os.Args[1:]))
	}
	rt.OpenSlots()
	rt.SubRun = strings.HasSuffix(os.Args[0], ".small")
	if os.Args[2] == "--sub" && len(os.Args) >= 4 {
		rt.SubDump = true
		os.Exit(f(rt.Tier(os.Args[3])))
	}
	if os.Args[2] == "--replay" && len(os.Args) >= 4 {
		rt.Replay = rt.LoadReplay(os.Args[3])
		if strings.HasPrefix(rt.Replay.Run, rt.VariantPrefix) && !rt.SubRun {
			// recorded in the small-thresholds build: replay it there
			cmd := exec.Command(os.Args[0]+".small", os.Args[1:]...)
			cmd.Stdout, cmd.Stderr = os.Stdout, os.Stderr
			if err := cmd.Run(); err != nil {
				if ee, ok := err.(*exec.ExitError); ok {
					os.Exit(ee.ExitCode())
				}
				fmt.Fprintln(os.Stderr, "HARNESS-ERROR: small-thresholds variant:", err)
				os.Exit(2)
			}
			os.Exit(0)
		}
		os.Exit(f(rt.Replay.Tier))
	}
	tier := rt.Tier(os.Args[2])
	if tier != rt.Quick && tier != rt.Thorough {
		fmt.Fprintln(os.Stderr, "unknown tier", os.Args[2])
		os.Exit(2)
	}
	rc := f(tier)
	if exitHook != nil {
		exitHook()
	}
	os.Exit(rc)
}

// exitHook is set by the coverage-audit build (covaudit.go, tag covaudit).
var exitHook func()
