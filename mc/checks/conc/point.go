package conc

import "verifmc/vsync"

// vsyncPoint is an explicit scheduling point in harness code (a no-op without scheduler).
func vsyncPoint() { vsync.PointHere() }

// touch marks an access of harness-owned shared memory (a no-op without scheduler): two threads parked at
// touches of the same address, one of them writing, are a data race the exploration reports itself.
func touch(addr any, write bool, what string) { vsync.Touch(addr, write, what) }
