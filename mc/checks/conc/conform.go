package conc

import (
	"encoding/json"
	"fmt"
	"os"
	"sort"

	"github.com/0chain/common/core/statecache"

	"verifmc/vsync"
)

// ---- conformance of the TLA+ model tla/StateCacheProto.tla with the implementation: every trace
// produced from TLC's state graph is replayed under the scheduler, thread by thread, and after every
// step the abstract state of the real cache must equal the model's.

type ConfScenario struct {
	Name       string            `json:"name"`
	Blocks     []string          `json:"blocks"`
	Parent     map[string]string `json:"parent"`
	Write      map[string]string `json:"write"`
	Pre        []string          `json:"pre"`
	Committers []string          `json:"committers"`
	Readers    []string          `json:"readers"`
	Query      map[string]string `json:"query"`
}

type ConfState struct {
	Known  bool              `json:"known"`
	Bvs    map[string]string `json:"bvs"`
	Link   map[string]string `json:"link"`
	Result map[string]string `json:"result"`
}

type ConfStep struct {
	Thread string    `json:"thread"`
	State  ConfState `json:"state"`
}

type ConfFile struct {
	Scenario ConfScenario `json:"scenario"`
	Model    struct {
		States      int `json:"states"`
		Transitions int `json:"transitions"`
	} `json:"model"`
	Traces [][]ConfStep `json:"traces"`
}

type ConfResult struct {
	Scenario         string `json:"scenario"`
	ModelStates      int    `json:"model_states"`
	ModelTransitions int    `json:"model_transitions"`
	Traces           int    `json:"traces_replayed"`
	Steps            int    `json:"steps_compared"`
	Failure          string `json:"failure,omitempty"` // model and implementation disagree (not by itself a property violation)
	Unsound          string `json:"unsound,omitempty"` // the implementation returned a value the block tree does not determine
}

func prevOf(sc ConfScenario, b string) string {
	if p := sc.Parent[b]; p != "none" {
		return p
	}
	return ""
}

func confBlock(c *statecache.StateCache, sc ConfScenario, b string) *statecache.BlockCache {
	bc := statecache.NewBlockCache(c, statecache.Block{Hash: b, PrevHash: prevOf(sc, b)})
	tc := statecache.NewTransactionCache(bc)
	switch w := sc.Write[b]; w {
	case "none":
	case "DEL":
		tc.Remove("k")
	default:
		tc.Set("k", statecache.String(w))
	}
	tc.Commit()
	return bc
}

// Conform replays every trace of the file; it returns at the first disagreement.
func Conform(path string) ConfResult {
	var cf ConfFile
	b, err := os.ReadFile(path)
	if err == nil {
		err = json.Unmarshal(b, &cf)
	}
	res := ConfResult{Scenario: cf.Scenario.Name, ModelStates: cf.Model.States, ModelTransitions: cf.Model.Transitions}
	if err != nil {
		res.Failure = "cannot read trace file: " + err.Error()
		return res
	}
	sc := cf.Scenario
	threads := append(append([]string{}, sc.Committers...), sc.Readers...)
	tid := map[string]int{}
	for i, t := range threads {
		tid[t] = i
	}
	for ti, trace := range cf.Traces {
		cache := statecache.NewStateCache()
		pre := append([]string{}, sc.Pre...)
		// parents first
		sort.Slice(pre, func(i, j int) bool { return depth(sc, pre[i]) < depth(sc, pre[j]) })
		for _, b := range pre {
			confBlock(cache, sc, b).Commit()
		}
		results := map[string]string{}
		var bodies []func()
		for _, c := range sc.Committers {
			bc := confBlock(cache, sc, c)
			bodies = append(bodies, func() { bc.Commit() })
		}
		for _, r := range sc.Readers {
			r := r
			results[r] = "pending"
			bodies = append(bodies, func() {
				v, ok := cache.Get("k", sc.Query[r])
				if ok {
					results[r] = fmt.Sprint(v)
				} else {
					results[r] = "miss"
				}
			})
		}
		// choice sequence: every thread first runs up to its first scheduling point (no shared effect),
		// then the model's steps
		var order []int
		for i := range threads {
			order = append(order, i)
		}
		for _, st := range trace {
			order = append(order, tid[st.Thread])
		}
		pos := 0
		fail := ""
		compare := func(step int) {
			if fail != "" || step < 0 || step >= len(trace) {
				return
			}
			want := trace[step].State
			var known bool
			var entries, links map[string]string
			vsync.Inspect(func() { known, entries, links = statecache.VerifView(cache, "k") })
			if known != want.Known {
				fail = fmt.Sprintf("after step %d (%s): implementation has a per-block map for the key = %v, model says %v", step, trace[step].Thread, known, want.Known)
				return
			}
			for _, blk := range sc.Blocks {
				we := want.Bvs[blk]
				if !want.Known {
					we = "none" // an unpublished map is private to the committer
				}
				ge, ok := entries[blk]
				if !ok {
					ge = "none"
				}
				if ge != we {
					fail = fmt.Sprintf("after step %d (%s): entry of block %s is %q in the implementation, %q in the model", step, trace[step].Thread, blk, ge, we)
					return
				}
				wl := want.Link[blk]
				gl, ok := links[blk]
				if !ok {
					gl = "nolink"
				} else if gl == "" {
					gl = "none"
				}
				if gl != wl {
					fail = fmt.Sprintf("after step %d (%s): link of block %s is %q in the implementation, %q in the model", step, trace[step].Thread, blk, gl, wl)
					return
				}
			}
		}
		chooser := func(enabled []int) int {
			// a decision is taken when the previous segment is complete: compare with the model state
			// after the last model step that has been executed
			compare(pos - len(threads) - 1)
			if pos >= len(order) {
				if fail == "" {
					fail = fmt.Sprintf("the implementation needs more steps than the model trace has (%d)", len(trace))
				}
				return 0
			}
			want := order[pos]
			pos++
			for i, e := range enabled {
				if e == want {
					return i
				}
			}
			if fail == "" {
				fail = fmt.Sprintf("at step %d the model runs thread %s, which is blocked or finished in the implementation (enabled: %v)", pos-len(threads)-1, threads[want], enabled)
			}
			return 0
		}
		s := vsync.RunWith(nil, 100000, chooser, bodies)
		if fail == "" && s.Err != "" {
			fail = "scheduler: " + s.Err
		}
		if fail == "" && pos != len(order) {
			fail = fmt.Sprintf("the implementation finished after %d of %d model steps", pos-len(threads), len(trace))
		}
		if fail == "" && len(trace) > 0 {
			compare(len(trace) - 1)
			last := trace[len(trace)-1].State
			for _, r := range sc.Readers {
				if results[r] != last.Result[r] && fail == "" {
					fail = fmt.Sprintf("reader %s returned %q in the implementation, %q in the model", r, results[r], last.Result[r])
				}
			}
		}
		// independent of the model: what the readers got must be the block tree's value or a miss
		for _, r := range sc.Readers {
			truth := "miss"
			for b := sc.Query[r]; b != "none" && b != ""; b = sc.Parent[b] {
				if w := sc.Write[b]; w != "none" {
					if w != "DEL" {
						truth = w
					}
					break
				}
			}
			if got := results[r]; got != "pending" && got != "miss" && got != truth && res.Unsound == "" {
				var ths []string
				for _, st := range trace {
					ths = append(ths, st.Thread)
				}
				res.Unsound = fmt.Sprintf("thread order %v: reader %s (lookup at %s) returned %q; the block tree determines %q (or a miss)", ths, r, sc.Query[r], got, truth)
			}
		}
		res.Traces++
		res.Steps += len(trace)
		if fail != "" {
			var ths []string
			for _, st := range trace {
				ths = append(ths, st.Thread)
			}
			res.Failure = fmt.Sprintf("trace %d %v: %s", ti, ths, fail)
			return res
		}
	}
	return res
}

func depth(sc ConfScenario, b string) int {
	d := 0
	for b != "none" && b != "" {
		b = sc.Parent[b]
		d++
	}
	return d
}
