package sc

import (
	"fmt"
	"time"

	"verifmc/explore/seq"
	"verifmc/rt"
)

// shapes enumerates every parent function for n blocks (forests included: -1 = gap).
func shapes(n int) [][]int {
	out := [][]int{{-1}}
	for i := 1; i < n; i++ {
		var next [][]int
		for _, s := range out {
			for p := -1; p < i; p++ {
				next = append(next, append(append([]int{}, s...), p))
			}
		}
		out = next
	}
	return out
}

func runUniverse(rep *rt.Report, u universe, deadline time.Time) *seq.Stats {
	evs := u.events()
	cfg := seq.Config{
		Name: u.name, NOps: len(evs), MaxDepth: u.depth, Workers: rt.Workers(), Deadline: deadline,
		OpName: func(i int) string { return evs[i].String() },
		Enabled: func(h []uint8, op int) bool {
			e := evs[op]
			if e.K == 's' || e.K == 'r' || e.K == 'c' || e.K == 'C' || e.K == 'S' {
				for _, x := range h {
					if evs[x].K == 'C' && evs[x].B == e.B {
						return false // a block is committed once; no writes into it afterwards
					}
				}
			}
			return true
		},
		Run: func(h []uint8) seq.Outcome {
			w := newWorld(u)
			for i, x := range h {
				if f := w.apply(evs[x]); f != "" {
					if i != len(h)-1 {
						return seq.Outcome{Verdict: seq.Violation, Msg: "non-deterministic replay: prefix failed: " + f}
					}
					return classify(w, evs[x], f)
				}
			}
			k, capErr := w.key()
			if capErr != "" {
				return seq.Outcome{Verdict: seq.Violation, Msg: capErr}
			}
			// full observation on this throw-away instance (lookups memoise, so successors are
			// always produced by replay without it)
			if f := w.observeAll(); f != "" {
				return classify(w, event{}, f)
			}
			return seq.Outcome{Key: k}
		},
	}
	st := seq.Explore(cfg)
	rep.Add("states", st.States)
	rep.Add("transitions", st.Transitions)
	rep.Add("traces_validated_against_impl", st.Transitions)
	rep.Add("evaluations", st.Transitions)
	rep.Add("distinct_nontrivial", st.States)
	rep.Sub[st.Name] = map[string]any{"parents": u.parents, "keys": u.keys, "txns_per_block": u.txns, "value_kinds": u.kinds, "stats": st}
	for _, s := range st.Samples {
		rep.Sample(map[string]any{"universe": st.Name, "parents": u.parents, "history": s})
	}
	if !st.Exhaustive {
		rep.NotExhaustive(st.Name + ": " + st.Cap)
	}
	for id, k := range st.Known {
		for i := 0; i < k.Count; i++ {
			rep.KnownHit(id, fmt.Sprint(k.Witness), k.Msg)
		}
	}
	for _, v := range st.Violations {
		rep.Violate(fmt.Sprintf("[%s parents=%v] %v => %s", st.Name, u.parents, v.Hist, v.Msg), map[string]any{"universe": st.Name, "parents": u.parents, "history": v.Hist, "ops": v.Raw})
	}
	return st
}

func classify(w *world, e event, f string) seq.Outcome {
	return seq.Outcome{Verdict: seq.Violation, Msg: f}
}

// C06: the state cache never returns a wrong value for a block.
func C06(tier rt.Tier) int {
	rep := rt.NewReport("C06", tier)
	var us []universe
	per := 8 * time.Second
	if tier == rt.Quick {
		for i, s := range shapes(3) {
			us = append(us, universe{name: fmt.Sprintf("3blocks-shape%d", i), parents: s, keys: []string{"k"}, txns: 1, kinds: []int{0}, depth: 40})
		}
		us = append(us, universe{name: "chain4", parents: []int{-1, 0, 1, 2}, keys: []string{"k"}, txns: 1, kinds: []int{0}, depth: 40})
		us = append(us, universe{name: "fork-2txns", parents: []int{-1, 0, 0}, keys: []string{"k"}, txns: 2, kinds: []int{0}, depth: 40})
		us = append(us, universe{name: "chain3-direct-block-set", parents: []int{-1, 0, 1}, keys: []string{"k"}, txns: 1, kinds: []int{0}, depth: 40, directSet: true})
		us = append(us, universe{name: "chain3-late-block-hash", parents: []int{-1, 0, 1}, keys: []string{"k"}, txns: 1, kinds: []int{0}, depth: 40, lateHash: true})
		us = append(us, universe{name: "fork-fresh-txn-handles", parents: []int{-1, 0, 0}, keys: []string{"k"}, txns: 2, kinds: []int{0}, depth: 40, freshTxn: true})
		us = append(us, universe{name: "fork-statecache-remove", parents: []int{-1, 0, 0}, keys: []string{"k"}, txns: 1, kinds: []int{0}, depth: 40, scRemove: true})
	} else {
		per = 30 * time.Second
		for i, s := range shapes(4) {
			us = append(us, universe{name: fmt.Sprintf("4blocks-shape%d", i), parents: s, keys: []string{"k"}, txns: 1, kinds: []int{0}, depth: 60})
		}
		for i, s := range shapes(3) {
			us = append(us, universe{name: fmt.Sprintf("3blocks-2keys-2txns-shape%d", i), parents: s, keys: []string{"k", "j"}, txns: 2, kinds: []int{0}, depth: 60})
		}
		us = append(us, universe{name: "fork-fresh-txn-handles", parents: []int{-1, 0, 0}, keys: []string{"k", "j"}, txns: 2, kinds: []int{0}, depth: 60, freshTxn: true})
	}
	for _, u := range us {
		b := per
		if tier == rt.Quick && (len(u.parents) > 3 || u.txns > 1) {
			b = 3 * per
		}
		runUniverse(rep, u, time.Now().Add(b))
	}
	{
		// keys where one is a prefix of another x block names where one is a suffix of another ("k"+"12" == "k1"+"2")
		useSuffixNames = true
		u := universe{name: "ambiguous-key+block-concatenations", parents: []int{-1, 0, 1}, keys: []string{"k", "k1", "k11"}, txns: 1, kinds: []int{0}, depth: 40}
		if tier == rt.Thorough {
			u.parents = []int{-1, 0, 1, 1}
		}
		runUniverse(rep, u, time.Now().Add(3*per))
		useSuffixNames = false
	}
	capacityScenarios(rep)
	depthScenarios(rep, []int{0}, false)
	depthScenarios(rep, []int{0}, true)
	manyKeysScenario(rep, 70000, 1000)
	// ONE transaction holding all the block's writes, at sizes on both sides of powers of two
	for _, n := range []int{257, 1025, 2049, 4097, 8193, 16385, 32769, 65537} {
		manyKeysScenario(rep, n, 0)
		manyKeysScenario(rep, n-2, 0)
	}
	rep.Set("dedup", haveDump)
	rep.Set("rule", "for every block forest of the stated size: BFS to closure over events {txn Set/Remove/Commit, opening a new transaction cache for a slot (one universe), block Commit (any order, children before parents), lookups through TransactionCache, BlockCache, QueryBlockCache and StateCache at every block (lookups are events: they memoise)}; every hit must equal the block-tree model's most recent write on the context's own chain (own uncommitted writes first), removed/unknown keys and chains through uncommitted blocks must miss; states merged on model + dumped private cache contents (overlay-added dump file); after every transition all lookups are additionally evaluated on the throw-away instance; plus 12 macro-event capacity scenarios (150..260 sibling writers of one key around the per-key capacity 200, with/without re-reading an old ancestor), deep walks below the capacity, chains of every depth 1..70 with a key written (and, in a variant, rewritten and removed) at the bottom and looked up at every block and through child/transaction/query caches, and one block writing/removing 70000 distinct keys")
	rep.Assumption("universes stay far below every LRU capacity (asserted); capacity/eviction behaviour is covered by separate macro-scenarios only")
	return rep.Finish()
}

// C07: writes private until commit, committed writes found, values never shared.
func C07(tier rt.Tier) int {
	rep := rt.NewReport("C07", tier)
	var us []universe
	per := 8 * time.Second
	mk := func(name string, parents []int, keys []string, txns int, kinds []int) universe {
		return universe{name: name, parents: parents, keys: keys, txns: txns, kinds: kinds, depth: 60, mutateValues: true, demandHits: true}
	}
	if tier == rt.Quick {
		for i, s := range shapes(3) {
			us = append(us, mk(fmt.Sprintf("3blocks-shape%d-mutval+leaf+full", i), s, []string{"k"}, 1, []int{1, 2, 3}))
		}
		us = append(us, mk("fork-2txns-ext+valuenode", []int{-1, 0, 0}, []string{"k"}, 2, []int{4, 5, 1}))
		ds := mk("chain3-direct-block-set", []int{-1, 0, 1}, []string{"k"}, 1, []int{1, 2, 3})
		ds.directSet = true
		us = append(us, ds)
		lh := mk("fork-late-block-hash", []int{-1, 0, 0}, []string{"k"}, 1, []int{1, 4, 5})
		lh.lateHash = true
		us = append(us, lh)
	} else {
		per = 30 * time.Second
		for i, s := range shapes(4) {
			us = append(us, mk(fmt.Sprintf("4blocks-shape%d-all-kinds", i), s, []string{"k"}, 1, []int{1, 2, 3, 4}))
		}
		for i, s := range shapes(3) {
			us = append(us, mk(fmt.Sprintf("3blocks-2txns-2keys-shape%d", i), s, []string{"k", "j"}, 2, []int{5, 2, 4}))
		}
	}
	for _, u := range us {
		runUniverse(rep, u, time.Now().Add(per))
	}
	// chains of every depth 1..70 with mutable values of every kind: what a deep walk hands out and memoises
	// must be independent copies exactly as for a walk over two blocks
	depthScenarios(rep, []int{1, 2, 3, 4, 5}, false)
	depthScenarios(rep, []int{1, 3}, true)
	for _, n := range []int{2049, 4097, 65537} {
		manyKeysScenario(rep, n, 0) // one transaction holding all the block's writes
	}
	rep.Set("dedup", haveDump)
	rep.Set("rule", "same event universes as C06 with mutable value types (harness MutVal, util.LeafNode/FullNode/ExtensionNode/ValueNode): after every Set the harness mutates the object it passed in, after every Get it mutates what it received; every later lookup at every layer must equal the model's snapshot taken at Set time (Encode() bytes for nodes); uncommitted txn writes invisible to block cache and sibling txns, uncommitted block writes invisible to all other blocks; once every block from the context up to the writer is committed the lookup MUST hit (universes asserted below all capacities); plus chains of every depth 1..70 (key written, in a variant rewritten and removed, at the bottom; every block, child block, transaction and query cache looked up twice, every object handed out is mutated)")
	rep.Assumption("completeness (must-hit) is demanded only because the universes provably cannot evict: <= 4 blocks, <= 2 keys")
	return rep.Finish()
}
