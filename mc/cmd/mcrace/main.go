// mcrace is the AUXILIARY free-running pass: the same scenario bodies as mcsched, real package sync,
// built with -race, every scenario repeated with all threads released together. A cooperative
// scheduler's hand-offs are happens-before edges, so the race detector is useless inside mcsched; this
// pass samples schedules (it is not the deciding step for any property, and is reported separately).
//
//	mcrace <ID> <iterations>     prints one JSON object; exit 66 if the race detector fired
package main

import (
	"encoding/json"
	"fmt"
	"os"
	"strconv"
	"sync"
	"time"

	"verifmc/checks/conc"
	"verifmc/explore/sched"
)

var props = map[string]func() []sched.Scenario{
	"C08": conc.C08Scenarios,
	"C16": conc.C16Scenarios,
	"C20": conc.C20Scenarios,
}

func main() {
	f, ok := props[os.Args[1]]
	if !ok {
		fmt.Fprintln(os.Stderr, "unknown", os.Args[1])
		os.Exit(2)
	}
	iters, _ := strconv.Atoi(os.Args[2])
	out := map[string]any{"property": os.Args[1], "iterations_per_scenario": iters}
	fails := map[string]int{}
	runs := 0
	small := len(f())
	for si, sc := range append(f(), conc.StressScenarios(os.Args[1])...) {
		n := iters
		if si >= small {
			// the stress scenarios loop hundreds of times internally
			if n = iters / 15; n < 5 {
				n = 5
			}
		}
		for i := 0; i < n; i++ {
			bodies, judge := sc.Make()
			start := make(chan struct{})
			var wg sync.WaitGroup
			for _, b := range bodies {
				wg.Add(1)
				go func(b func()) {
					defer wg.Done()
					<-start
					b()
				}(b)
			}
			close(start)
			// every iteration takes milliseconds; one that is still going after two minutes is blocked for good
			fin := make(chan struct{})
			go func() { wg.Wait(); close(fin) }()
			select {
			case <-fin:
			case <-time.After(2 * time.Minute):
				fails[sc.Name+": the scenario's goroutines did not finish within 2 minutes (iteration "+strconv.Itoa(i)+"): they block each other for ever"]++
				out["executions"] = runs
				out["judge_failures"] = fails
				b, _ := json.Marshal(out)
				fmt.Println(string(b))
				os.Exit(1)
			}
			runs++
			if _, fail := judge(); fail != "" {
				fails[sc.Name+": "+fail]++
			}
		}
	}
	out["executions"] = runs
	out["judge_failures"] = fails
	b, _ := json.Marshal(out)
	fmt.Println(string(b))
	if len(fails) > 0 {
		os.Exit(1)
	}
}
