// mcsched runs the schedule-exploration checks. It must be built with the overlay that
// rewrites "sync" to verifmc/vsync in the packages under test (bin/build.sh mcsched).
//
//	mcsched <ID> quick|thorough
//	mcsched <ID> --replay <file>
//	mcsched --worker <ID> <scenario> <bounds,csv> <budget-seconds>   (internal)
package main

import (
	"context"
	"encoding/json"
	"fmt"
	"os"
	"os/exec"
	"path/filepath"
	"strconv"
	"strings"
	"sync"
	"time"

	"verifmc/checks/conc"
	"verifmc/checks/lg"
	"verifmc/explore/sched"
	"verifmc/explore/seq"
	"verifmc/rt"
)

type propDef struct {
	scenarios func() []sched.Scenario
	quick     []int
	thorough  []int
	quickS    int
	thoroughS int
	rule      string
	pre       func(rep *rt.Report, tier rt.Tier) // optional sequential part
}

var props = map[string]propDef{
	"C20": {scenarios: conc.C20Scenarios, quick: []int{0, 1, 2}, thorough: []int{0, 1, 2, 3, -1}, quickS: 40, thoroughS: 300, pre: c20Sequential,
		rule: "sequential part: BFS over all histories of {Write through core i, derive a core (With) from core i, bursts of capacity-1 / capacity / 2*capacity+1 writes through core i} for up to 3 cores; every history is run with GetLogs() called only at its end and with GetLogs() called after every event; each time it, and the lines printed by WriteLogs, must equal, newest first, the last min(total, capacity) entries written through any core; the pages served by the HTTP handlers (first, repeated, and after a request whose client went away) must show the same entries of their own buffer; thorough additionally recompiles the package with BufferSize=4 (overlay, one constant changed) so that wrap-around histories are enumerated completely. Concurrent part: every schedule with at most N preemptions of 2-3 threads writing through the root core and derived cores, optional reader: final buffer holds every entry exactly once in an order consistent with each thread's program order, concurrent reads never duplicate or miss a finished write"},
	"C16": {scenarios: conc.C16Scenarios, quick: []int{0, 1, 2}, thorough: []int{0, 1, 2, 3, 4}, quickS: 60, thoroughS: 600,
		rule: "every schedule (scheduling point before every lock acquisition of the trie, the node stores, the change collector, the transaction/block/state caches and the LRUs; the SaveChanges worker goroutine is adopted by its caller's logical thread) of each 2-3 thread scenario with at most N preemptions, N iterated; per schedule brute-force linearizability: the observed results and the final root/content/missing-key count must equal those of some sequential execution (on a fresh real trie) of the same operations in an order consistent with the recorded call/return order; no deadlock (writer-preferring RWMutex modelled); non-trivial = distinct observed outcome"},
	"C08": {scenarios: conc.C08Scenarios, quick: []int{0, 1, 2}, thorough: []int{0, 1, 2, 3, -1}, quickS: 40, thoroughS: 600,
		rule: "every schedule (scheduling point before every mutex/RWMutex acquisition of StateCache, BlockCache, TransactionCache and of every golang-lru operation) of each scenario with at most N preemptions, N iterated; per schedule every concurrent hit must equal the block-tree value for its (key, block), after all threads finished every committed block's own write must be found and every lookup stays sound; non-trivial = distinct observed outcome vector"},
}

type workerOut struct {
	Stats    *sched.Stats    `json:"stats"`
	Failures []sched.Failure `json:"failures"`
}

func main() {
	if len(os.Args) >= 3 && os.Args[1] == "--conform" {
		res := conc.Conform(os.Args[2])
		b, _ := json.Marshal(res)
		fmt.Println(string(b))
		if res.Failure != "" {
			os.Exit(1)
		}
		return
	}
	if len(os.Args) >= 4 && os.Args[1] == "--seq" {
		st := lg.SeqPart(nil, rt.Tier(os.Args[3]))
		b, _ := json.Marshal(seqOut{Stats: st, Violations: st.Violations, Known: st.Known})
		os.Stdout.Write(b)
		return
	}
	if len(os.Args) >= 6 && os.Args[1] == "--worker" {
		worker(os.Args[2], os.Args[3], os.Args[4], os.Args[5])
		return
	}
	if len(os.Args) < 3 {
		fmt.Fprintln(os.Stderr, "usage: mcsched <ID> quick|thorough | --replay <file>")
		os.Exit(2)
	}
	id := os.Args[1]
	pd, ok := props[id]
	if !ok {
		fmt.Fprintln(os.Stderr, "unknown check", id)
		os.Exit(2)
	}
	if os.Args[2] == "--replay" {
		os.Exit(replay(pd, os.Args[3]))
	}
	tier := rt.Tier(os.Args[2])
	bounds, budget := pd.quick, pd.quickS
	if tier == rt.Thorough {
		bounds, budget = pd.thorough, pd.thoroughS
	}
	rep := rt.NewReport(id, tier)
	if pd.pre != nil {
		pd.pre(rep, tier)
	}
	scs := pd.scenarios()
	outs := make([]*workerOut, len(scs))
	errs := make([]error, len(scs))
	sem := make(chan struct{}, rt.Workers())
	var wg sync.WaitGroup
	for i, sc := range scs {
		wg.Add(1)
		go func(i int, name string) {
			defer wg.Done()
			sem <- struct{}{}
			defer func() { <-sem }()
			var bs []string
			for _, b := range bounds {
				bs = append(bs, strconv.Itoa(b))
			}
			cmd := exec.Command(os.Args[0], "--worker", id, name, strings.Join(bs, ","), strconv.Itoa(budget))
			cmd.Env = append(os.Environ(), "GOMAXPROCS=2")
			cmd.Stderr = os.Stderr
			b, err := cmd.Output()
			if err != nil {
				errs[i] = fmt.Errorf("worker %s: %v", name, err)
				return
			}
			var wo workerOut
			if err := json.Unmarshal(b, &wo); err != nil {
				errs[i] = fmt.Errorf("worker %s: bad output: %v", name, err)
				return
			}
			outs[i] = &wo
		}(i, sc.Name)
	}
	wg.Wait()
	for _, e := range errs {
		if e != nil {
			rt.HarnessError("%v", e)
		}
	}
	totalOutcomes := 0
	for _, wo := range outs {
		st := wo.Stats
		rep.Add("states", st.Executions)
		rep.Add("transitions", st.Executions*maxInt(1, st.MaxPoints))
		rep.Add("traces_validated_against_impl", st.Executions)
		rep.Add("evaluations", st.Executions)
		totalOutcomes += len(st.Outcomes)
		rep.Sub[st.Name] = st
		for o, ch := range st.FirstSched {
			rep.Sample(map[string]any{"scenario": st.Name, "schedule": ch, "outcome": o})
			break
		}
		if !st.Exhaustive {
			rep.NotExhaustive(st.Name + ": " + st.Cap)
		}
		for _, f := range wo.Failures {
			rep.Violate(fmt.Sprintf("[%s] %s; outcome: %s; schedule (preemption bound %d): %v", st.Name, f.Msg, f.Outcome, f.Bound, f.Schedule),
				map[string]any{"scenario": st.Name, "choices": f.Choices})
		}
	}
	racePass(rep, id, tier)
	if id == "C08" {
		modelConformance(rep, tier)
	}
	rep.Set("distinct_nontrivial", totalOutcomes)
	rep.Set("rule", pd.rule+"; 'states' counts complete schedules executed, 'transitions' is an upper estimate schedules x decision points")
	rep.Assumption("context switches only immediately before lock acquisitions (and Touch points): sufficient when all shared accesses are inside critical sections; unsynchronised memory is left to the separate free-running -race pass (auxiliary)")
	rep.Assumption("sync/atomic counters are not scheduling points")
	os.Exit(rep.Finish())
}

// c20Sequential runs the sequential exploration in-process and, if present, the same exploration
// in the small-buffer build (mcsched.buf4).
func c20Sequential(rep *rt.Report, tier rt.Tier) {
	absorbSeq(rep, lg.SeqPart(rep, tier))
	lg.HandlerPart(rep)
	small := os.Args[0] + ".buf4"
	if _, err := os.Stat(small); err == nil {
		out, err := exec.Command(small, "--seq", "C20", string(tier)).Output()
		if err != nil {
			rt.HarnessError("small-buffer build: %v", err)
		}
		var st seqOut
		if err := json.Unmarshal(out, &st); err != nil {
			rt.HarnessError("small-buffer build: bad output: %v", err)
		}
		st.Stats.Violations, st.Stats.Known = st.Violations, st.Known
		absorbSeq(rep, st.Stats)
	} else {
		rep.Set("small_buffer_variant", "not built")
	}
}

type seqOut struct {
	Stats      *seq.Stats
	Violations []seq.Fail
	Known      map[string]*seq.KnownStat
}

func absorbSeq(rep *rt.Report, st *seq.Stats) {
	rep.Add("states", st.States)
	rep.Add("transitions", st.Transitions)
	rep.Add("traces_validated_against_impl", st.Transitions)
	rep.Add("evaluations", st.Transitions)
	rep.Add("sequential_states", st.States)
	rep.Sub[st.Name] = st
	for _, s := range st.Samples {
		rep.Sample(map[string]any{"run": st.Name, "history": s})
	}
	if !st.Exhaustive {
		rep.NotExhaustive(st.Name + ": " + st.Cap)
	}
	for id, k := range st.Known {
		for i := 0; i < k.Count; i++ {
			rep.KnownHit(id, fmt.Sprint(k.Witness), k.Msg)
		}
	}
	for _, v := range st.Violations {
		rep.Violate(fmt.Sprintf("[%s] %v => %s", st.Name, v.Hist, v.Msg), map[string]any{"run": st.Name, "history": v.Hist, "ops": v.Raw})
	}
}

// modelConformance: TLC checks tla/StateCacheProto.tla (all interleavings, state-deduplicated, the
// invariants Sound / EntriesRight / OwnWritesStay / NoDeadlock) for a few scenarios; a set of traces
// covering EVERY transition of each complete state graph is replayed against the real code under the
// scheduler, comparing the abstract cache state after every step. Agreement binds the model's verdict to
// the code. Disagreement alone is not a violation (the code may have been restructured): it is
// reported and the direct exploration above remains the deciding step; a replayed trace in which the
// real code returns a wrong value IS a violation.
func modelConformance(rep *rt.Report, tier rt.Tier) {
	if _, err := exec.LookPath("tlc"); err != nil {
		rep.Set("model_conformance", "skipped: tlc not on PATH")
		return
	}
	dir := filepath.Join(rt.Root(), ".build", "conform")
	_ = os.RemoveAll(dir)
	out, err := exec.Command("python3", filepath.Join(rt.Root(), "tla", "conform.py"), dir, string(tier)).Output()
	if err != nil {
		rep.Set("model_conformance", "skipped: trace generation failed: "+err.Error())
		return
	}
	var results []any
	lost := 0
	for _, line := range strings.Split(strings.TrimSpace(string(out)), "\n") {
		var g struct {
			Scenario string `json:"scenario"`
			File     string `json:"file"`
			TLCError string `json:"tlc_error"`
		}
		if json.Unmarshal([]byte(line), &g) != nil {
			continue
		}
		if g.TLCError != "" {
			results = append(results, map[string]any{"scenario": g.Scenario, "tlc": "the MODEL violates an invariant or failed to run (the model is wrong or was edited): " + g.TLCError[len(g.TLCError)-min(400, len(g.TLCError)):]})
			lost++
			continue
		}
		o, _ := exec.Command(os.Args[0], "--conform", g.File).Output()
		var r conc.ConfResult
		if json.Unmarshal(o, &r) != nil {
			results = append(results, map[string]any{"scenario": g.Scenario, "error": "replay produced no result"})
			lost++
			continue
		}
		results = append(results, r)
		rep.Add("model_states", r.ModelStates)
		rep.Add("model_transitions", r.ModelTransitions)
		rep.Add("model_traces_replayed_on_implementation", r.Traces)
		rep.Add("model_steps_compared_with_implementation", r.Steps)
		if r.Unsound != "" {
			rep.Violate("[model trace replay "+r.Scenario+"] "+r.Unsound, map[string]any{"scenario": r.Scenario, "trace_file": g.File})
		}
		if r.Failure != "" {
			lost++
			fmt.Printf("NOTE: model conformance lost for %s: %s (not a verdict: the direct exploration decides)\n", r.Scenario, r.Failure)
		}
	}
	rep.Set("model_conformance", map[string]any{"spec": "tla/StateCacheProto.tla", "invariants": "Sound, EntriesRight, OwnWritesStay, NoDeadlock (checked by TLC over the complete state graph of each scenario)",
		"scenarios": results, "scenarios_without_conformance": lost})
}

// racePass runs the auxiliary free-running -race binary (same scenario bodies, real package sync).
// It samples schedules; a report of the Go race detector is a true data race and is reported as a
// violation, silence proves nothing beyond the schedules that happened to run.
func racePass(rep *rt.Report, id string, tier rt.Tier) {
	bin := strings.Replace(os.Args[0], "mcsched", "mcrace", 1)
	if _, err := os.Stat(bin); err != nil {
		rep.Set("auxiliary_race_pass", "not built (no cgo / -race unavailable): the data-race clause is then covered only by the Touch points inside the exploration")
		return
	}
	iters := "150"
	if tier == rt.Thorough {
		iters = "3000"
	}
	if rep.NumViolations() > 0 {
		rep.Set("auxiliary_race_pass", "skipped: the exploration itself already reports violations")
		return
	}
	// the pass takes seconds; a run that is still going after the limit is blocked for good (a deadlock under
	// the real sync package does not always make the runtime abort: timers and the race runtime keep threads alive)
	limit := 10 * time.Minute
	if tier == rt.Thorough {
		limit = 60 * time.Minute
	}
	ctx, cancel := context.WithTimeout(context.Background(), limit)
	defer cancel()
	cmd := exec.CommandContext(ctx, bin, id, iters)
	cmd.Env = append(os.Environ(), "GORACE=halt_on_error=1 exitcode=66")
	var stderr strings.Builder
	cmd.Stderr = &stderr
	out, err := cmd.Output()
	res := map[string]any{"iterations_per_scenario": iters, "note": "auxiliary, free-running, samples schedules; not the deciding step"}
	if ctx.Err() == context.DeadlineExceeded {
		rep.Violate(fmt.Sprintf("auxiliary free-running pass: the scenario bodies did not finish within %v under the real sync package (they take seconds): some goroutines block each other for ever; progress output: %s", limit, tailStr(stderr.String(), 600)), map[string]any{"race_pass": "timeout"})
		rep.Set("auxiliary_race_pass", "timeout")
		return
	}
	var parsed map[string]any
	if json.Unmarshal(out, &parsed) == nil {
		res["result"] = parsed
	}
	if err != nil {
		report := stderr.String()
		if len(report) > 3000 {
			report = report[:3000]
		}
		res["failed"] = err.Error()
		if strings.Contains(report, "DATA RACE") {
			rep.Violate("auxiliary free-running -race pass: the Go race detector reported a data race:\n"+report, map[string]any{"race_report": report})
		} else if parsed != nil {
			rep.Violate(fmt.Sprintf("auxiliary free-running pass: scenario oracle failed: %v", parsed["judge_failures"]), map[string]any{"result": parsed})
		} else {
			rt.HarnessError("race pass: %v: %s", err, report)
		}
	}
	rep.Set("auxiliary_race_pass", res)
}

func tailStr(s string, n int) string {
	if len(s) > n {
		return s[len(s)-n:]
	}
	return s
}

func maxInt(a, b int) int {
	if a > b {
		return a
	}
	return b
}

func find(pd propDef, name string) sched.Scenario {
	for _, sc := range pd.scenarios() {
		if sc.Name == name {
			return sc
		}
	}
	rt.HarnessError("no scenario %q", name)
	return sched.Scenario{}
}

func worker(id, name, boundsCSV, budgetS string) {
	pd := props[id]
	sc := find(pd, name)
	var bounds []int
	for _, b := range strings.Split(boundsCSV, ",") {
		n, _ := strconv.Atoi(b)
		bounds = append(bounds, n)
	}
	secs, _ := strconv.Atoi(budgetS)
	st := sched.Explore(sc, bounds, time.Now().Add(time.Duration(secs)*time.Second))
	// confirm every failure: replay twice, identical observations, else harness error
	var confirmed []sched.Failure
	for _, f := range st.Failures {
		_, fail, det := sched.Replay(sc, f.Choices)
		if !det {
			rt.HarnessError("scenario %s: schedule %v is not deterministic under replay", name, f.Choices)
		}
		if fail == "" {
			rt.HarnessError("scenario %s: failure %q did not reproduce under replay of %v", name, f.Msg, f.Choices)
		}
		confirmed = append(confirmed, f)
	}
	b, _ := json.Marshal(workerOut{Stats: st, Failures: confirmed})
	os.Stdout.Write(b)
}

func replay(pd propDef, file string) int {
	b, err := os.ReadFile(file)
	if err != nil {
		rt.HarnessError("%v", err)
	}
	var art struct {
		Replay struct {
			Scenario string `json:"scenario"`
			Choices  []int  `json:"choices"`
		} `json:"replay"`
	}
	if err := json.Unmarshal(b, &art); err != nil {
		rt.HarnessError("%v", err)
	}
	sc := find(pd, art.Replay.Scenario)
	o, f, det := sched.Replay(sc, art.Replay.Choices)
	fmt.Println("outcome:", o)
	fmt.Println("deterministic:", det)
	if f != "" {
		fmt.Println("FAIL:", f)
		return 1
	}
	fmt.Println("ok")
	return 0
}
