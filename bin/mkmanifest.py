#!/usr/bin/env python3
"""Regenerates MANIFEST.json from the table below; validates it against the schema."""
import json, os, sys
ROOT = os.path.dirname(os.path.dirname(os.path.abspath(__file__)))
props = [json.loads(l) for l in open(os.path.join(ROOT, 'properties.jsonl'))]
ids = [p['id'] for p in props]

# id -> (engine, technique, level text, level note, design ref)
CHECKS = {}
def chk(id, engine, technique, text, note, ref):
    CHECKS[id] = dict(engine=engine, technique=technique, text=text, note=note, ref=ref)

exec(open(os.path.join(ROOT, 'bin', 'manifest_table.py')).read())

NA = {}
na_path = os.path.join(ROOT, 'bin', 'manifest_na.json')
if os.path.exists(na_path):
    NA = json.load(open(na_path))

m = {
 "version": 1,
 "setup_cmd": "bin/setup.sh",
 "hooks": {
  "guard": "verif",
  "enable": "no guarded source changes in /repo: instrumentation is applied at build time through `go build -overlay` (import \"sync\" rewritten to the scheduler shim, private-state dump files added) regenerated from /repo's current files by bin/build.sh",
  "baseline_off_cmd": "bin/baseline.sh",
  "source_commits": [],
  "add_only": True
 },
 "engines": [
  {"name": "seq", "path": "mc/explore/seq", "serves_properties": ["C01","C02","C03","C04","C05","C06","C07","C09","C11","C12","C13","C14","C17","C20"], "kind_free_text": "explicit-state BFS over operation histories of the real code (replay on fresh instances), dedup on model+implementation fingerprint"},
  {"name": "sched", "path": "mc/explore/sched", "serves_properties": ["C08","C16","C20"], "kind_free_text": "cooperative scheduler + preemption-bounded stateless DFS over the real code with sync rewritten through -overlay"},
  {"name": "crash", "path": "mc/explore/seq + third_party/grocksdb write log", "serves_properties": ["C04","C05","C11"], "kind_free_text": "every prefix of the device write log, reopen, recovery oracle"},
  {"name": "inputs", "path": "mc/checks", "serves_properties": ["C10","C15","C18","C19"], "kind_free_text": "complete enumeration of constructed finite input alphabets against independent oracles"}
 ],
 "checks": [],
 "not_applicable": [],
 "notes": "All checks: bin/check <ID> quick|thorough. Known findings: known_findings.json. See DESIGN.md."
}
for id in ids:
    if id in CHECKS:
        c = CHECKS[id]
        m["checks"].append({
            "property_id": id,
            "quick_cmd": f"bin/check {id} quick",
            "thorough_cmd": f"bin/check {id} thorough",
            "evidence_file": f"evidence/{id}.json",
            "replay_cmd_template": f"bin/check {id} --replay {{path}}",
            "engine": c['engine'],
            "level_claimed": {"category": "model_checking", "text": c['text'], "design_ref": c['ref']},
            "level_note": c['note'],
            "technique": c['technique'],
        })
    else:
        m["not_applicable"].append({"property_id": id, "reason": NA.get(id, "check not built yet in this session (work in progress; planned per DESIGN.md section 4)")})
json.dump(m, open(os.path.join(ROOT, 'MANIFEST.json'), 'w'), indent=1)
try:
    import jsonschema
    jsonschema.validate(m, json.load(open('/root/.vp/MANIFEST.schema.json')))
    print("MANIFEST.json valid;", len(m['checks']), "checks,", len(m['not_applicable']), "not claimed")
except ImportError:
    print("MANIFEST.json written (jsonschema not importable here)")
