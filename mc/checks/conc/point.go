package conc

import "verifmc/vsync"

// vsyncPoint is an explicit scheduling point in harness code (a no-op without scheduler).
func vsyncPoint() { vsync.PointHere() }
