package mpt

import (
	"bytes"
	"context"
	"encoding/hex"
	"fmt"
	"sort"
	"strings"
	"time"

	"github.com/0chain/common/core/statecache"
	"github.com/0chain/common/core/util"

	"verifmc/explore/seq"
	"verifmc/rt"
)

// ---- C03: child tries are isolated transactions

type child struct {
	t         *util.MerklePatriciaTrie
	tc        *statecache.TransactionCache
	model     map[string]string
	startRoot []byte
	nops      int
	broken    bool // an operation on a stale child failed; its view is undefined from then on
}

type txWorld struct {
	base   util.NodeDB
	dev    string
	sc     *statecache.StateCache
	bc     *statecache.BlockCache
	B      *util.MerklePatriciaTrie
	model  map[string]string
	kids   []*child
	ver    int64
	nested bool
	cut    bool // the model no longer determines the state: judge nothing further, do not extend
}

type txEvent struct {
	K     byte // o open, I insert, D delete, m merge, x discard
	Child int  // -1 = the block trie itself
	P, V  string
}

func (e txEvent) String() string {
	who := "B"
	if e.Child >= 0 {
		who = fmt.Sprintf("T%d", e.Child)
	}
	switch e.K {
	case 'o':
		return "open " + who
	case 'I':
		return fmt.Sprintf("%s.Insert(%q,%q)", who, e.P, e.V)
	case 'D':
		return fmt.Sprintf("%s.Delete(%q)", who, e.P)
	case 'm':
		return "merge " + who
	case 'x':
		return "discard " + who
	}
	return "?"
}

type txConfig struct {
	name       string
	persistent bool
	initial    map[string]string
	paths      []string
	vals       []string
	children   int
	parentOf   []int // parent of child i (-1 = the block trie); nil = all children hang under the block trie
	opsPerKid  int
	directOps  bool
	depth      int
	viaChanges bool // children are merged with MergeChanges(child.GetChanges()) instead of MergeMPTChanges(child)
}

func newTxWorld(c txConfig) *txWorld {
	w := &txWorld{model: map[string]string{}, ver: 2, kids: make([]*child, c.children)}
	if c.persistent {
		w.dev = fmt.Sprintf("txworld-%d", nextDev())
		pn, err := util.NewPNodeDB(w.dev, "")
		if err != nil {
			panic(err)
		}
		w.base = pn
	} else {
		w.base = util.NewMemoryNodeDB()
	}
	// committed content at version 1
	var root util.Key
	if len(c.initial) > 0 {
		t0 := util.NewMerklePatriciaTrie(util.NewLevelNodeDB(util.NewMemoryNodeDB(), w.base, false), 1, nil, statecache.NewEmpty())
		keys := make([]string, 0, len(c.initial))
		for k := range c.initial {
			keys = append(keys, k)
		}
		sort.Strings(keys)
		for _, k := range keys {
			if _, err := t0.Insert(util.Path(k), val(c.initial[k])); err != nil {
				panic(err)
			}
			w.model[k] = c.initial[k]
		}
		if err := t0.SaveChanges(context.Background(), w.base, false); err != nil {
			panic(err)
		}
		root = t0.GetRoot()
	}
	w.sc = statecache.NewStateCache()
	w.bc = statecache.NewBlockCache(w.sc, statecache.Block{Round: 2, Hash: "b2", PrevHash: "b1"})
	w.B = util.NewMerklePatriciaTrie(util.NewLevelNodeDB(util.NewMemoryNodeDB(), w.base, false), util.Sequence(w.ver), root, statecache.NewTransactionCache(w.bc))
	return w
}

func (w *txWorld) close() {
	if w.dev != "" {
		resetDev(w.dev)
	}
}

func copyMap(m map[string]string) map[string]string {
	c := make(map[string]string, len(m))
	for k, v := range m {
		c[k] = v
	}
	return c
}

// deepFingerprint renders everything of a trie that isolation must preserve, without
// calling anything that mutates the trie (no lookups: they fill caches).
func deepFingerprint(t *util.MerklePatriciaTrie) string {
	var sb strings.Builder
	root, changes, deletes, start := t.GetChanges()
	fmt.Fprintf(&sb, "root=%x start=%x\n", []byte(root), []byte(start))
	var cs []string
	for _, c := range changes {
		s := fmt.Sprintf("new %s enc=%x rehash=%x", c.New.GetHash(), c.New.Encode(), c.New.GetHashBytes())
		if c.Old != nil {
			s += fmt.Sprintf(" old %s enc=%x", c.Old.GetHash(), c.Old.Encode())
		}
		cs = append(cs, s)
	}
	sort.Strings(cs)
	sb.WriteString(strings.Join(cs, "\n"))
	var ds []string
	for _, d := range deletes {
		ds = append(ds, fmt.Sprintf("del %s enc=%x", d.GetHash(), d.Encode()))
	}
	sort.Strings(ds)
	sb.WriteString("\n" + strings.Join(ds, "\n") + "\n")
	if l, ok := t.GetNodeDB().(*util.LevelNodeDB); ok {
		var ns []string
		_ = l.GetCurrent().Iterate(context.Background(), func(ctx context.Context, key util.Key, node util.Node) error {
			ns = append(ns, fmt.Sprintf("store %x enc=%x rehash=%x", []byte(key), node.Encode(), node.GetHashBytes()))
			return nil
		})
		sort.Strings(ns)
		sb.WriteString(strings.Join(ns, "\n"))
	}
	return sb.String()
}

// storeSelfConsistent: every node in the writable level and in the pending change
// set still hashes to the key it is filed under.
func storeSelfConsistent(t *util.MerklePatriciaTrie) string {
	fail := ""
	if l, ok := t.GetNodeDB().(*util.LevelNodeDB); ok {
		_ = l.GetCurrent().Iterate(context.Background(), func(ctx context.Context, key util.Key, node util.Node) error {
			if fail == "" && !bytes.Equal(key, node.GetHashBytes()) {
				fail = fmt.Sprintf("stored node %x now hashes to %x (encoding %q): a stored object was mutated", []byte(key), node.GetHashBytes(), node.Encode())
			}
			return nil
		})
	}
	return fail
}

func viewOf(t *util.MerklePatriciaTrie, model map[string]string, paths []string) string {
	tmp := &World{T: t, Model: model}
	return tmp.Observe(paths)
}

// node returns trie, model and (for children) the child record of participant i (-1 = block trie).
func (w *txWorld) node(i int) (*util.MerklePatriciaTrie, map[string]string, *child) {
	if i < 0 {
		return w.B, w.model, nil
	}
	return w.kids[i].t, w.kids[i].model, w.kids[i]
}

func (c txConfig) parent(i int) int {
	if i < 0 || len(c.parentOf) == 0 {
		return -1
	}
	return c.parentOf[i]
}

// fresh: every link from participant i up to the block trie is up to date (each start root equals
// its parent's current root) and nothing on the chain is broken: only then is i's view defined.
func (w *txWorld) fresh(i int, c txConfig) bool {
	for i >= 0 {
		k := w.kids[i]
		if k == nil || k.broken {
			return false
		}
		pt, _, _ := w.node(c.parent(i))
		if !bytes.Equal(k.startRoot, pt.GetRoot()) {
			return false
		}
		i = c.parent(i)
	}
	return true
}

func (w *txWorld) fingerprints() map[int]string {
	fp := map[int]string{-1: deepFingerprint(w.B)}
	if m, ok := w.base.(*util.MemoryNodeDB); ok {
		// the committed store below the block: nothing in this universe ever writes it, and its node
		// objects are what a cold read hands to whoever asks
		var ns []string
		_ = m.Iterate(context.Background(), func(ctx context.Context, key util.Key, node util.Node) error {
			ns = append(ns, fmt.Sprintf("base %x enc=%x rehash=%x", []byte(key), node.Encode(), node.GetHashBytes()))
			return nil
		})
		sort.Strings(ns)
		fp[-2] = strings.Join(ns, "\n")
	}
	for i, k := range w.kids {
		if k != nil {
			fp[i] = deepFingerprint(k.t)
		}
	}
	return fp
}

func who(i int) string {
	if i == -2 {
		return "the committed store below the block"
	}
	if i < 0 {
		return "the block trie"
	}
	return fmt.Sprintf("T%d", i)
}

func (w *txWorld) apply(e txEvent, c txConfig, judge bool) (fail string) {
	defer func() {
		if r := recover(); r != nil {
			fail = fmt.Sprintf("panic: %v", r)
		}
	}()
	var before map[int]string
	if judge {
		before = w.fingerprints()
	}
	changed := map[int]bool{} // participants this event is allowed to change
	switch {
	case e.K == 'o':
		p := c.parent(e.Child)
		pt, pm, _ := w.node(p)
		k := &child{model: copyMap(pm), startRoot: pt.GetRoot()}
		if p < 0 {
			k.tc = statecache.NewTransactionCache(w.bc)
		} else {
			k.tc = statecache.NewEmpty()
		}
		k.t = util.NewMerklePatriciaTrie(util.NewLevelNodeDB(util.NewMemoryNodeDB(), pt.GetNodeDB(), false), pt.GetVersion(), pt.GetRoot(), k.tc)
		w.kids[e.Child] = k
		changed[e.Child] = true
	case e.K == 'I' || e.K == 'D':
		t, m, k := w.node(e.Child)
		changed[e.Child] = true
		if k != nil {
			k.nops++
		}
		defined := e.Child < 0 || w.fresh(e.Child, c)
		var err error
		if e.K == 'I' {
			_, err = t.Insert(util.Path(e.P), val(e.V))
		} else {
			_, err = t.Delete(util.Path(e.P))
		}
		_, present := m[e.P]
		switch {
		case !defined:
			// a trie above this child moved on underneath it: its own answers are not defined by
			// the property, only that everybody else stays untouched
			if err != nil && err != util.ErrValueNotPresent {
				k.broken = true
			}
			if err == nil {
				if e.K == 'I' {
					m[e.P] = e.V
				} else {
					delete(m, e.P)
				}
			}
		case e.K == 'I':
			if err != nil {
				return fmt.Sprintf("insert returned %v", err)
			}
			m[e.P] = e.V
		case present:
			if err != nil {
				return fmt.Sprintf("delete of present path returned %v", err)
			}
			delete(m, e.P)
		default:
			if err != util.ErrValueNotPresent {
				return fmt.Sprintf("delete of absent path returned %v", err)
			}
		}
	case e.K == 'm':
		k := w.kids[e.Child]
		p := c.parent(e.Child)
		pt, _, pk := w.node(p)
		pRoot, kRoot := pt.GetRoot(), k.t.GetRoot()
		var err error
		if c.viaChanges {
			nr, chs, dels, start := k.t.GetChanges()
			err = pt.MergeChanges(nr, chs, dels, start)
		} else {
			err = pt.MergeMPTChanges(k.t)
		}
		switch {
		case bytes.Equal(pRoot, kRoot):
			// same root: nothing to publish
			if err != nil {
				return fmt.Sprintf("merge of a child with its parent's root returned %v", err)
			}
		case k.broken || (pk != nil && pk.broken):
			// an operation failed while a trie above was elsewhere (a parent physically removes its
			// own superseded nodes): the content is not defined by the property. Whatever the merge
			// decides, the exploration does not continue from here.
			w.cut = true
			if err == nil {
				changed[p] = true
			}
		case bytes.Equal(k.startRoot, pRoot):
			if err != nil {
				return fmt.Sprintf("merge of an up-to-date child was rejected: %v", err)
			}
			k.tc.Commit()
			if p < 0 {
				w.model = copyMap(k.model)
			} else {
				pk.model = copyMap(k.model)
			}
			changed[p] = true
			if !bytes.Equal(pt.GetRoot(), kRoot) {
				return fmt.Sprintf("after merge %s has root %x, the merged child had %x", who(p), pt.GetRoot(), kRoot)
			}
		default:
			if err == nil {
				return fmt.Sprintf("merge of a stale child (%s moved on since the child was opened) was accepted", who(p))
			}
		}
		w.kids[e.Child] = nil
		changed[e.Child] = true
	case e.K == 'x':
		w.kids[e.Child] = nil
		changed[e.Child] = true
	}
	if judge {
		after := w.fingerprints()
		for i, b := range before {
			if changed[i] {
				continue
			}
			if a, ok := after[i]; ok && a != b {
				return fmt.Sprintf("%s was changed by an event (%v) that must not touch it: %s", who(i), e, lineDiff(b, a))
			}
		}
		for i := -1; i < len(w.kids); i++ {
			if i >= 0 && w.kids[i] == nil {
				continue
			}
			t, _, _ := w.node(i)
			if f := storeSelfConsistent(t); f != "" {
				return who(i) + ": " + f
			}
		}
	}
	return ""
}

func (w *txWorld) observe(c txConfig) string {
	if f := viewOf(w.B, w.model, c.paths); f != "" {
		return "block trie view: " + f
	}
	for i, k := range w.kids {
		if k == nil || !w.fresh(i, c) {
			continue
		}
		if f := viewOf(k.t, k.model, c.paths); f != "" {
			return fmt.Sprintf("child T%d view: %s", i, f)
		}
		if f := storeSelfConsistent(k.t); f != "" {
			return fmt.Sprintf("child T%d: %s", i, f)
		}
	}
	// reading must not have changed what isolation protects either
	if f := storeSelfConsistent(w.B); f != "" {
		return "block trie after reads: " + f
	}
	return ""
}

func (w *txWorld) key() string {
	var sb strings.Builder
	mk := func(m map[string]string) string {
		ks := make([]string, 0, len(m))
		for k, v := range m {
			ks = append(ks, k+"="+v)
		}
		sort.Strings(ks)
		return strings.Join(ks, ",")
	}
	tk := func(t *util.MerklePatriciaTrie) string {
		tmp := &World{T: t, Ver: w.ver}
		return tmp.ImplKey()
	}
	sb.WriteString(mk(w.model) + "#" + tk(w.B))
	for _, k := range w.kids {
		if k == nil {
			sb.WriteString("||-")
			continue
		}
		fmt.Fprintf(&sb, "||%s#%s#%s#%d#%v", mk(k.model), tk(k.t), hex.EncodeToString(k.startRoot), k.nops, k.broken)
	}
	return sb.String()
}

func (c txConfig) events() []txEvent {
	var evs []txEvent
	who := []int{}
	if c.directOps {
		who = append(who, -1)
	}
	for i := 0; i < c.children; i++ {
		who = append(who, i)
	}
	for _, i := range who {
		if i >= 0 {
			evs = append(evs, txEvent{K: 'o', Child: i})
		}
		for _, p := range c.paths {
			for _, v := range c.vals {
				evs = append(evs, txEvent{K: 'I', Child: i, P: p, V: v})
			}
			evs = append(evs, txEvent{K: 'D', Child: i, P: p})
		}
		if i >= 0 {
			evs = append(evs, txEvent{K: 'm', Child: i}, txEvent{K: 'x', Child: i})
		}
	}
	return evs
}

func runTx(rep *rt.Report, c txConfig, deadline time.Time) {
	st := seq.Explore(txCfg(c, deadline))
	absorb(rep, fmt.Sprintf("%s: persistent base=%v, committed content %v, %d children x <=%d ops, direct parent ops=%v, paths %q, values %q, depth<=%d",
		c.name, c.persistent, c.initial, c.children, c.opsPerKid, c.directOps, c.paths, c.vals, c.depth), st)
}

// runTxLong: ONE child with a long history of its own (every cycle of 1..2 child operations repeated up to
// `repeats` times) which is then merged; judged after the merge at every repetition count.
func runTxLong(rep *rt.Report, c txConfig, repeats int, deadline time.Time) {
	cfg := txCfg(c, deadline)
	evs := c.events()
	var open, merge uint8
	var childOps []uint8
	for i, e := range evs {
		switch {
		case e.Child == 0 && e.K == 'o':
			open = uint8(i)
		case e.Child == 0 && e.K == 'm':
			merge = uint8(i)
		case e.Child == 0 && (e.K == 'I' || e.K == 'D'):
			childOps = append(childOps, uint8(i))
		}
	}
	cfg.Stems, cfg.CycleOps, cfg.Tail = [][]uint8{{open}}, childOps, []uint8{merge}
	st := seq.Lasso(cfg, 0, 2, repeats)
	absorbLasso(rep, fmt.Sprintf("%s: one child opened, every cycle of 1..2 of its operations (paths %q, values %q) repeated up to %d times, then merged; judged after the merge for every repetition count", c.name, c.paths, c.vals, repeats), st)
}

func txCfg(c txConfig, deadline time.Time) seq.Config {
	evs := c.events()
	cfg := seq.Config{
		Name: c.name, NOps: len(evs), MaxDepth: c.depth, Workers: rt.Workers(), Deadline: deadline,
		OpName: func(i int) string { return evs[i].String() },
		Enabled: func(h []uint8, op int) bool {
			e := evs[op]
			if e.Child < 0 {
				return true
			}
			open, n := false, 0
			for _, x := range h {
				if evs[x].Child != e.Child {
					continue
				}
				switch evs[x].K {
				case 'o':
					open, n = true, 0
				case 'm', 'x':
					open = false
				default:
					n++
				}
			}
			isOpen := func(child int) bool {
				o := false
				for _, x := range h {
					if evs[x].Child == child {
						switch evs[x].K {
						case 'o':
							o = true
						case 'm', 'x':
							o = false
						}
					}
				}
				return o
			}
			switch e.K {
			case 'o':
				p := c.parent(e.Child)
				return !open && (p < 0 || isOpen(p))
			case 'I', 'D':
				return open && n < c.opsPerKid
			default:
				if !open {
					return false
				}
				for j := 0; j < c.children; j++ {
					if c.parent(j) == e.Child && isOpen(j) {
						return false // a trie with an open child of its own is not merged or discarded
					}
				}
				return true
			}
		},
		Run: func(h []uint8) seq.Outcome {
			w := newTxWorld(c)
			defer w.close()
			for i, x := range h {
				last := i == len(h)-1
				if f := w.apply(evs[x], c, last); f != "" {
					if !last {
						return seq.Outcome{Verdict: seq.Violation, Msg: "non-deterministic replay: prefix failed: " + f}
					}
					return seq.Outcome{Verdict: seq.Violation, Msg: f}
				}
			}
			if w.cut {
				return seq.Outcome{Cut: true}
			}
			k := w.key() // before observation: observation fills caches
			if f := w.observe(c); f != "" {
				return seq.Outcome{Verdict: seq.Violation, Msg: f}
			}
			return seq.Outcome{Key: k}
		},
	}
	return cfg
}

var pfPaths = []string{"0a1b", "0a1c", "0a2b", "0b22", "1c00", "0a1d"}

func C03(tier rt.Tier) int {
	rep := rt.NewReport("C03", tier)
	nested := []string{"", "aa", "ab", "aaaa", "aaab", "abab", "ba"}
	var runs []txConfig
	per := 25 * time.Second
	if tier == rt.Quick {
		runs = []txConfig{
			{name: "prefixfree-2children", initial: map[string]string{"0a1b": "p", "0b22": "p"}, paths: pfPaths[:5], vals: []string{"x"}, children: 2, opsPerKid: 2, directOps: true, depth: 5},
			{name: "nested-2children-pnodedb", persistent: true, initial: map[string]string{"aa": "p", "aaab": "p"}, paths: nested[:6], vals: []string{"x"}, children: 2, opsPerKid: 2, directOps: false, depth: 6},
			{name: "empty-base-1child", initial: nil, paths: pfPaths[:4], vals: []string{"x", "y"}, children: 1, opsPerKid: 3, directOps: true, depth: 5},
			// a child that overwrites and then restores what an earlier write of the same block created, plus one more change
			// values on branches (keys that are prefixes of other keys), committed base in memory, cold reads
			{name: "nested-membase-blind-writes", initial: map[string]string{"aa": "p", "aaab": "p", "ab": "q"}, paths: []string{"aa", "aaab", "ab", "aaaa"}, vals: []string{"x"}, children: 2, opsPerKid: 2, directOps: true, depth: 5},
			// a transaction inside a transaction: T1 is a child of T0
			{name: "nested-child-of-child", initial: map[string]string{"0a1b": "p"}, paths: pfPaths[:3], vals: []string{"x"}, children: 2, parentOf: []int{-1, 0}, opsPerKid: 2, directOps: true, depth: 6},
			{name: "restore-within-block", initial: map[string]string{"0b22": "p"}, paths: pfPaths[:2], vals: []string{"x", "y"}, children: 1, opsPerKid: 3, directOps: true, depth: 7},
			// the other merge entry point: the child's change set handed over explicitly
			{name: "merge-changes-2children", initial: map[string]string{"0a1b": "p", "0b22": "p"}, paths: pfPaths[:4], vals: []string{"x"}, children: 2, opsPerKid: 2, directOps: false, depth: 5, viaChanges: true},
		}
	} else {
		per = 150 * time.Second
		runs = []txConfig{
			{name: "prefixfree-3children", initial: map[string]string{"0a1b": "p", "0b22": "p"}, paths: pfPaths, vals: []string{"x", "y"}, children: 3, opsPerKid: 3, directOps: true, depth: 7},
			{name: "nested-2children-pnodedb", persistent: true, initial: map[string]string{"aa": "p", "aaab": "p"}, paths: nested, vals: []string{"x", "y"}, children: 2, opsPerKid: 3, directOps: true, depth: 7},
			{name: "empty-base-2children", initial: nil, paths: pfPaths, vals: []string{"x", "y"}, children: 2, opsPerKid: 3, directOps: true, depth: 7},
			{name: "merge-changes-2children", initial: map[string]string{"0a1b": "p", "0b22": "p"}, paths: pfPaths, vals: []string{"x"}, children: 2, opsPerKid: 3, directOps: true, depth: 7, viaChanges: true},
			{name: "three-key-base", initial: map[string]string{"0a1b": "p", "0a1c": "p", "1c00": "q"}, paths: pfPaths, vals: []string{"x"}, children: 2, opsPerKid: 3, directOps: true, depth: 7},
		}
	}
	if rt.SubRun {
		// BatchSize = 2: a merge of more than two node changes crosses the batching threshold
		runs = []txConfig{
			{name: rt.VariantPrefix + "prefixfree-2children", initial: map[string]string{"0a1b": "p", "0b22": "p"}, paths: pfPaths[:4], vals: []string{"x"}, children: 2, opsPerKid: 2, directOps: false, depth: 6},
			{name: rt.VariantPrefix + "nested-2children-pnodedb", persistent: true, initial: map[string]string{"aa": "p", "aaab": "p"}, paths: nested[:5], vals: []string{"x"}, children: 2, opsPerKid: 2, directOps: false, depth: 6},
		}
		if tier == rt.Thorough {
			runs[0].paths, runs[0].opsPerKid, runs[0].depth, runs[0].directOps = pfPaths, 3, 7, true
			runs[1].paths, runs[1].opsPerKid, runs[1].depth = nested, 3, 7
		}
	}
	for _, c := range runs {
		runTx(rep, c, time.Now().Add(per))
	}
	if !rt.SubRun {
		// long histories inside one child before it is merged
		reps := 40
		if tier == rt.Thorough {
			reps = 120
		}
		runTxLong(rep, txConfig{name: "long-child", initial: map[string]string{"0a1b": "p", "0b22": "p"}, paths: pfPaths[:4], vals: []string{"x", "y"}, children: 1, opsPerKid: 1 << 20, directOps: false, depth: 1}, reps, time.Now().Add(per))
		runTxLong(rep, txConfig{name: "long-child-nested-pnodedb", persistent: true, initial: map[string]string{"aa": "p", "aaab": "p"}, paths: nested[:4], vals: []string{"x", "y"}, children: 1, opsPerKid: 1 << 20, directOps: false, depth: 1}, reps/2, time.Now().Add(per))
	}
	if !rt.SubRun && (rt.Replay == nil || rt.Replay.Run == "deep-chain") {
		deepChains(rep)
	}
	rep.RunVariant()
	rep.Set("rule", "BFS over all event histories {open child, insert/delete in a child or directly in the block trie, merge child (MergeMPTChanges, in one run MergeChanges(child.GetChanges()), + txn-cache commit), discard child}; children are LevelNodeDB(mem, parent.db) tries sharing one StateCache/BlockCache; after every event the parent's deep fingerprint (root, pending changes with re-encoded nodes, deletes, every node of its writable store re-hashed) must be unchanged unless the event is an accepted merge or a direct parent op; merges of stale children must be rejected; every non-stale view is compared with its map model")
	rep.Assumption("the view of a child whose parent moved on after it was opened is not checked (the property only demands that its merge is rejected and the parent stays untouched)")
	return rep.End()
}

// lineDiff lists the lines present in only one of two fingerprints.
func lineDiff(a, b string) string {
	am, bm := map[string]bool{}, map[string]bool{}
	for _, l := range strings.Split(a, "\n") {
		am[l] = true
	}
	for _, l := range strings.Split(b, "\n") {
		bm[l] = true
	}
	var out []string
	for _, l := range strings.Split(a, "\n") {
		if !bm[l] {
			out = append(out, "- "+l)
		}
	}
	for _, l := range strings.Split(b, "\n") {
		if !am[l] {
			out = append(out, "+ "+l)
		}
	}
	return strings.Join(out, " ; ")
}

// deepChains: "every tree of parent/child tries" includes deep ones. A chain of generations, each opened on the one
// before it and adding one path: every generation reads its own and all its ancestors' content; then the chain is
// merged back level by level (deepest first), every trie on the way ending with the content of everything below it,
// and a sibling opened at the top before the merges is rejected as stale afterwards.
func deepChains(rep *rt.Report) {
	n := 0
	for _, depth := range []int{1, 2, 3, 7, 8, 15, 16, 17, 31, 32, 33, 34, 48, 63, 64, 65, 100, 130} {
		n++
		fail := func() (fail string) {
			defer func() {
				if r := recover(); r != nil {
					fail = fmt.Sprintf("panic: %v", r)
				}
			}()
			base := util.NewMemoryNodeDB()
			top := util.NewMerklePatriciaTrie(util.NewLevelNodeDB(util.NewMemoryNodeDB(), base, false), 2, nil, statecache.NewEmpty())
			if _, err := top.Insert(util.Path("ffff"), val("top")); err != nil {
				return err.Error()
			}
			model := map[string]string{"ffff": "top"}
			paths := []string{"ffff", "eeee"}
			for i := 0; i < depth; i++ {
				paths = append(paths, fmt.Sprintf("%04x", i*37))
			}
			sibling := util.NewMerklePatriciaTrie(util.NewLevelNodeDB(util.NewMemoryNodeDB(), top.GetNodeDB(), false), 2, top.GetRoot(), statecache.NewEmpty())
			if _, err := sibling.Insert(util.Path("eeee"), val("sibling")); err != nil {
				return err.Error()
			}
			chain := []*util.MerklePatriciaTrie{top}
			models := []map[string]string{copyMap(model)}
			for i := 0; i < depth; i++ {
				parent := chain[len(chain)-1]
				t := util.NewMerklePatriciaTrie(util.NewLevelNodeDB(util.NewMemoryNodeDB(), parent.GetNodeDB(), false), 2, parent.GetRoot(), statecache.NewEmpty())
				p := fmt.Sprintf("%04x", i*37)
				if _, err := t.Insert(util.Path(p), val("g"+p)); err != nil {
					return fmt.Sprintf("generation %d: Insert(%q): %v", i+1, p, err)
				}
				model[p] = "g" + p
				if f := viewOf(t, model, paths); f != "" {
					return fmt.Sprintf("generation %d of %d (opened on generation %d): %s", i+1, depth, i, f)
				}
				chain = append(chain, t)
				models = append(models, copyMap(model))
			}
			for i := range chain {
				if f := viewOf(chain[i], models[i], paths); f != "" {
					return fmt.Sprintf("generation %d of %d after its descendants were built: %s", i, depth, f)
				}
			}
			for i := depth; i >= 1; i-- {
				if err := chain[i-1].MergeMPTChanges(chain[i]); err != nil {
					return fmt.Sprintf("merge of generation %d into generation %d: %v", i, i-1, err)
				}
				if f := viewOf(chain[i-1], model, paths); f != "" {
					return fmt.Sprintf("generation %d after the merge of everything below it: %s", i-1, f)
				}
			}
			if err := top.MergeMPTChanges(sibling); err == nil {
				return "a sibling opened on the top trie before the chain was merged into it was accepted afterwards (stale)"
			}
			if f := viewOf(top, model, paths); f != "" {
				return "top trie after the rejected merge of the stale sibling: " + f
			}
			return ""
		}()
		if fail != "" {
			rep.Violate(fmt.Sprintf("[deep-chain] %d generations of child tries: %s", depth, fail), map[string]any{"run": "deep-chain", "depth": depth})
			break
		}
	}
	rep.Add("states", n)
	rep.Add("transitions", n)
	rep.Add("traces_validated_against_impl", n)
	rep.Add("evaluations", n)
	rep.Sub["deep-chain"] = map[string]any{"rule": "chains of 1..130 generations of child tries (each opened on the one before, one insert each): every generation reads its own and its ancestors' content; merged back deepest first, every trie ends with the content of everything below it; a sibling opened at the top before the merges is rejected as stale", "cases": n}
}
