// Package model holds the reference models. They are deliberately boring and
// share no code with the packages under test.
package model

import (
	"encoding/binary"
	"encoding/hex"
	"sort"
	"strings"

	"golang.org/x/crypto/sha3"
)

// Sha3 is the node hash of the published format (SHA3-256).
func Sha3(b []byte) []byte {
	h := sha3.New256()
	h.Write(b)
	return h.Sum(nil)
}

// MPTNode is a node of the canonical state trie for some content.
type MPTNode struct {
	Kind     byte // 'L' leaf, 'F' full, 'E' extension
	Prefix   string
	Path     string
	Value    []byte
	Children [16]*MPTNode
	Child    *MPTNode // extension
	Origin   int64
	hash     []byte
}

const nibbles = "0123456789abcdef"

// CanonicalMPT builds the canonical Patricia trie for content (path -> value):
// a single key is a leaf; a common prefix of >= 1 character above a branch is an
// extension; a key that ends on a branch is the branch's value; a subtree with one
// key is a leaf whose Prefix is its position and whose Path is the rest.
func CanonicalMPT(content map[string][]byte, origin int64) *MPTNode {
	keys := make([]string, 0, len(content))
	for k := range content {
		keys = append(keys, k)
	}
	sort.Strings(keys)
	return build("", keys, content, origin)
}

func build(pos string, keys []string, content map[string][]byte, origin int64) *MPTNode {
	if len(keys) == 0 {
		return nil
	}
	if len(keys) == 1 {
		return &MPTNode{Kind: 'L', Prefix: pos, Path: keys[0][len(pos):], Value: content[keys[0]], Origin: origin}
	}
	// longest common prefix beyond pos
	lcp := keys[0][len(pos):]
	for _, k := range keys[1:] {
		r := k[len(pos):]
		n := 0
		for n < len(lcp) && n < len(r) && lcp[n] == r[n] {
			n++
		}
		lcp = lcp[:n]
	}
	if len(lcp) > 0 {
		return &MPTNode{Kind: 'E', Path: lcp, Child: build(pos+lcp, keys, content, origin), Origin: origin}
	}
	f := &MPTNode{Kind: 'F', Prefix: pos, Origin: origin}
	rest := keys
	if rest[0] == pos {
		f.Value = content[pos]
		rest = rest[1:]
	}
	for i := 0; i < 16; i++ {
		p := pos + nibbles[i:i+1]
		var sub []string
		for _, k := range rest {
			if strings.HasPrefix(k, p) {
				sub = append(sub, k)
			}
		}
		f.Children[i] = build(p, sub, content, origin)
	}
	return f
}

// Hash computes the node hash per the published format: little-endian origin,
// then leaf = prefix ':' path ':' value; full = 16 x (hex(child) ':') then value;
// extension = path ':' raw child key.
func (n *MPTNode) Hash() []byte {
	if n == nil {
		return nil
	}
	if n.hash != nil {
		return n.hash
	}
	n.hash = Sha3(append(le64(n.Origin), n.Body()...))
	return n.hash
}

// Body is the encoding without type byte and origin tracker.
func (n *MPTNode) Body() []byte {
	var b []byte
	switch n.Kind {
	case 'L':
		b = append(b, n.Prefix...)
		b = append(b, ':')
		b = append(b, n.Path...)
		b = append(b, ':')
		b = append(b, n.Value...)
	case 'F':
		for i := 0; i < 16; i++ {
			if c := n.Children[i]; c != nil {
				b = append(b, hex.EncodeToString(c.Hash())...)
			}
			b = append(b, ':')
		}
		b = append(b, n.Value...)
	case 'E':
		b = append(b, n.Path...)
		b = append(b, ':')
		b = append(b, n.Child.Hash()...)
	}
	return b
}

// Encoding is the full stored form: type byte, LE version, LE origin, body.
func (n *MPTNode) Encoding() []byte {
	var t byte
	switch n.Kind {
	case 'L':
		t = 2
	case 'F':
		t = 4
	case 'E':
		t = 8
	}
	b := []byte{t}
	b = append(b, le64(n.Origin)...) // version == origin for nodes created by the trie
	b = append(b, le64(n.Origin)...)
	return append(b, n.Body()...)
}

// Walk visits every node of the canonical trie.
func (n *MPTNode) Walk(f func(*MPTNode)) {
	if n == nil {
		return
	}
	f(n)
	if n.Kind == 'E' {
		n.Child.Walk(f)
	}
	for _, c := range n.Children {
		c.Walk(f)
	}
}

func le64(v int64) []byte {
	b := make([]byte, 8)
	binary.LittleEndian.PutUint64(b, uint64(v))
	return b
}
