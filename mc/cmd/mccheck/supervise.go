package main

import (
	"bytes"
	"crypto/sha256"
	"encoding/hex"
	"encoding/json"
	"fmt"
	"io"
	"os"
	"os/exec"
	"path/filepath"
	"strings"
	"time"

	"verifmc/rt"
)

// supervise runs this same binary as a child process that does the actual exploration. A child that
// ends with exit code 0 or 1 is passed through. A child that dies any other way (fatal runtime error
// such as stack overflow or concurrent map writes, the OOM killer, the watchdog's memory/hang limits)
// left the histories it was executing in the slot file: each is replayed in a process of its own, and
// one that kills its process again (or fails) is reported as the violation it is.
func supervise(args []string) int {
	id := args[0]
	dir, err := os.MkdirTemp("", "mccheck-slots-")
	if err != nil {
		return runDirect(args)
	}
	defer os.RemoveAll(dir)
	slots := filepath.Join(dir, "slots")
	if err := rt.CreateSlotFile(slots); err != nil {
		return runDirect(args)
	}
	code, tail := runChild(args, slots, os.Stdout, 0)
	if code == 0 || code == 1 {
		return code
	}
	fmt.Fprintf(os.Stderr, "supervisor: the exploring process died (exit %d); replaying the histories that were in flight\n", code)
	sub := len(args) >= 2 && args[1] == "--sub"
	tier := rt.Quick
	for _, a := range args[1:] {
		if a == string(rt.Thorough) {
			tier = rt.Thorough
		}
	}
	cands := rt.ReadSlots(slots)
	seen := map[string]bool{}
	rdir := filepath.Join(rt.Root(), "replays")
	if d := os.Getenv("VERIF_EVIDENCE_DIR"); d != "" {
		rdir = filepath.Join(d, "replays")
	}
	_ = os.MkdirAll(rdir, 0o755)
	for _, c := range cands {
		key := c.Run + "|" + string(c.Ops)
		if seen[key] {
			continue
		}
		seen[key] = true
		replay := slotReplay(c)
		art := map[string]any{"property": id, "tier": string(tier), "msg": "the exploring process died while this history was in flight", "replay": replay}
		ab, _ := json.MarshalIndent(art, "", " ")
		h := sha256.Sum256(ab)
		p := filepath.Join(rdir, fmt.Sprintf("%s-%s.json", id, hex.EncodeToString(h[:6])))
		if err := os.WriteFile(p, ab, 0o644); err != nil {
			continue
		}
		_ = rt.CreateSlotFile(slots)
		var out bytes.Buffer
		rc, rtail := runChild([]string{id, "--replay", p}, slots, &out, 10*time.Minute)
		switch {
		case rc == 0:
			_ = os.Remove(p)
			continue
		case rc == 1:
			// the history fails in an ordinary way when run alone
			msg := fmt.Sprintf("[%s] case %s (in flight when the exploring process died with exit %d): %s", c.Run, caseText(c), code, lastLines(out.String(), 3))
			return report(id, tier, sub, msg, replay, p)
		default:
			msg := fmt.Sprintf("[%s] case %s kills the process that executes it (exit %d, reproduced in a process of its own): %s", c.Run, caseText(c), rc, fatalSummary(rtail))
			return report(id, tier, sub, msg, replay, p)
		}
	}
	// Second pass: the death may need a particular timing inside the code under test (goroutines it starts
	// itself). Each candidate is replayed many times in one process.
	for _, c := range cands {
		replay := slotReplay(c)
		art := map[string]any{"property": id, "tier": string(tier), "msg": "the exploring process died while this history was in flight (timing dependent: reproduced by repetition)", "replay": replay, "repeat": 400}
		ab, _ := json.MarshalIndent(art, "", " ")
		h := sha256.Sum256(ab)
		p := filepath.Join(rdir, fmt.Sprintf("%s-%s.json", id, hex.EncodeToString(h[:6])))
		if err := os.WriteFile(p, ab, 0o644); err != nil {
			continue
		}
		_ = rt.CreateSlotFile(slots)
		var out bytes.Buffer
		os.Setenv("VERIF_REPLAY_REPEAT", "400")
		rc, rtail := runChild([]string{id, "--replay", p}, slots, &out, 5*time.Minute)
		os.Unsetenv("VERIF_REPLAY_REPEAT")
		if rc == 0 {
			_ = os.Remove(p)
			continue
		}
		if rc == 1 {
			msg := fmt.Sprintf("[%s] history %v (in flight when the exploring process died with exit %d) fails when repeated (timing dependent; replay with VERIF_REPLAY_REPEAT=400): %s", c.Run, c.Ops, code, lastLines(out.String(), 3))
			return report(id, tier, sub, msg, replay, p)
		}
		msg := fmt.Sprintf("[%s] history %v kills the process that executes it when repeated (exit %d; timing dependent, replay with VERIF_REPLAY_REPEAT=400): %s", c.Run, c.Ops, rc, fatalSummary(rtail))
		return report(id, tier, sub, msg, replay, p)
	}
	// Still nothing. A panic or runtime abort on a goroutine that the code under test started itself (no harness
	// frame on its stack) is the code under test's own failure whatever history triggered it.
	if fg := faultingGoroutine(tail); strings.Contains(fg, "github.com/0chain/common/") && !strings.Contains(fg, "verifmc/") && !strings.Contains(tail, "fatal error: concurrent map") {
		p := filepath.Join(rdir, fmt.Sprintf("%s-library-goroutine-crash.txt", id))
		_ = os.WriteFile(p, []byte(tail), 0o644)
		msg := fmt.Sprintf("a goroutine started by the code under test crashed the process (no harness frame on its stack; %d histories were in flight, none reproduces it alone or repeated): %s", len(cands), fatalSummary(fg))
		return report(id, tier, sub, msg, map[string]any{"stack_file": p}, p)
	}
	// No single history kills its process. The workers of an exploration never share an object of the code
	// under test (each history runs on instances of its own), so a runtime abort about concurrent access
	// ("concurrent map writes", "concurrent map read and map write", ...) with frames of the code under test
	// on the faulting goroutine means the code under test shares unsynchronised state between independent
	// instances. Decide it in two steps: run the same check with ONE worker (if the sharing is visible
	// sequentially this reports an ordinary, replayable violation); if that run is clean, report the abort itself.
	if strings.Contains(tail, "fatal error: concurrent map") && strings.Contains(faultingGoroutine(tail), "github.com/0chain/common/") {
		fmt.Fprintln(os.Stderr, "supervisor: concurrent map access inside the code under test; re-running the check with one worker")
		_ = rt.CreateSlotFile(slots)
		cmd := exec.Command(os.Args[0], args...)
		cmd.Env = append(os.Environ(), "VERIF_CHILD=1", "VERIF_SLOTS="+slots, "VERIF_WORKERS=1")
		cmd.Stdout, cmd.Stderr = os.Stdout, os.Stderr
		err := cmd.Run()
		if ee, ok := err.(*exec.ExitError); ok && ee.ExitCode() == 1 {
			return 1
		}
		p := filepath.Join(rdir, fmt.Sprintf("%s-shared-state.txt", id))
		_ = os.WriteFile(p, []byte(tail), 0o644)
		msg := "independent instances of the code under test share unsynchronised state: the exploration's workers (each history on instances of its own) made the Go runtime abort with " + fatalSummary(faultingGoroutine(tail)) + "; a one-worker run of the same check shows no violation (the artefact is the abort's stack, there is no single history to replay)"
		return report(id, tier, sub, msg, map[string]any{"stack_file": p}, p)
	}
	fmt.Fprintf(os.Stderr, "HARNESS-ERROR: the exploring process died (exit %d) and none of the %d in-flight histories reproduces it alone\n%s\n", code, len(cands), lastLines(tail, 30))
	return 2
}

// faultingGoroutine returns the fatal line and the stack of the first goroutine printed after it.
func faultingGoroutine(stderr string) string {
	i := strings.Index(stderr, "fatal error:")
	if j := strings.Index(stderr, "panic: "); j >= 0 && (i < 0 || j < i) {
		i = j
	}
	if i < 0 {
		return ""
	}
	rest := stderr[i:]
	j := strings.Index(rest, "\ngoroutine ")
	if j < 0 {
		return rest
	}
	k := strings.Index(rest[j+1:], "\n\ngoroutine ")
	if k < 0 {
		return rest
	}
	return rest[:j+1+k]
}

// slotReplay turns an in-flight record into the replay map of a violation artefact.
func slotReplay(c rt.SlotRec) map[string]any {
	if c.Run == rt.JSONRun {
		var m map[string]any
		if json.Unmarshal(c.Ops, &m) == nil {
			return m
		}
	}
	return map[string]any{"run": c.Run, "ops": c.Ops}
}

func caseText(c rt.SlotRec) string {
	if c.Run == rt.JSONRun {
		return string(c.Ops)
	}
	return fmt.Sprint(c.Ops)
}

func report(id string, tier rt.Tier, sub bool, msg string, replay any, path string) int {
	rep := rt.NewReport(id, tier)
	rep.Violate(msg, replay)
	rep.NotExhaustive("the exploration was cut short by a history that kills its process")
	if sub {
		rt.SubDump = true
		return rep.Dump()
	}
	return rep.Finish()
}

func runDirect(args []string) int {
	cmd := exec.Command(os.Args[0], args...)
	cmd.Env = append(os.Environ(), "VERIF_CHILD=1")
	cmd.Stdout, cmd.Stderr = os.Stdout, os.Stderr
	if err := cmd.Run(); err != nil {
		if ee, ok := err.(*exec.ExitError); ok {
			return ee.ExitCode()
		}
		return 2
	}
	return 0
}

// runChild runs one child; its stderr is passed through and its tail kept.
func runChild(args []string, slots string, stdout io.Writer, timeout time.Duration) (int, string) {
	cmd := exec.Command(os.Args[0], args...)
	cmd.Env = append(os.Environ(), "VERIF_CHILD=1", "VERIF_SLOTS="+slots)
	var tail tailBuf
	cmd.Stdout = stdout
	cmd.Stderr = io.MultiWriter(os.Stderr, &tail)
	if err := cmd.Start(); err != nil {
		return 2, err.Error()
	}
	done := make(chan error, 1)
	go func() { done <- cmd.Wait() }()
	var err error
	if timeout > 0 {
		select {
		case err = <-done:
		case <-time.After(timeout):
			_ = cmd.Process.Kill()
			<-done
			return rt.ExitHang, tail.String() + "\nsupervisor: killed after " + timeout.String()
		}
	} else {
		err = <-done
	}
	if err != nil {
		if ee, ok := err.(*exec.ExitError); ok {
			if c := ee.ExitCode(); c >= 0 {
				return c, tail.String()
			}
			return 137, tail.String() + "\n" + ee.String() // killed by a signal
		}
		return 2, err.Error()
	}
	return 0, tail.String()
}

// tailBuf keeps the first 16 KB and the last 16 KB of what is written to it.
type tailBuf struct {
	head, tail []byte
}

func (t *tailBuf) Write(p []byte) (int, error) {
	n := len(p)
	if room := 16384 - len(t.head); room > 0 {
		if room > len(p) {
			room = len(p)
		}
		t.head = append(t.head, p[:room]...)
		p = p[room:]
	}
	t.tail = append(t.tail, p...)
	if len(t.tail) > 16384 {
		t.tail = t.tail[len(t.tail)-16384:]
	}
	return n, nil
}

func (t *tailBuf) String() string {
	if len(t.tail) == 0 {
		return string(t.head)
	}
	return string(t.head) + "\n...\n" + string(t.tail)
}

func lastLines(s string, n int) string {
	ls := strings.Split(strings.TrimSpace(s), "\n")
	if len(ls) > n {
		ls = ls[len(ls)-n:]
	}
	return strings.Join(ls, " | ")
}

// fatalSummary extracts the fatal line and the first frames inside the code under test.
func fatalSummary(stderr string) string {
	var out []string
	for _, l := range strings.Split(stderr, "\n") {
		t := strings.TrimSpace(l)
		switch {
		case strings.HasPrefix(t, "fatal error:"), strings.HasPrefix(t, "runtime: goroutine stack exceeds"), strings.HasPrefix(t, "WATCHDOG:"), strings.HasPrefix(t, "supervisor:"), strings.Contains(t, "signal: killed"):
			if len(out) < 8 {
				out = append(out, t)
			}
		case strings.HasPrefix(t, "github.com/0chain/common/") && len(out) < 8:
			out = append(out, t)
		}
	}
	if len(out) == 0 {
		return lastLines(stderr, 4)
	}
	return strings.Join(out, " | ")
}
