// Package lg holds the sequential part of C20 (in-memory log buffer).
package lg

import (
	"bytes"
	"fmt"
	"strconv"
	"strings"
	"time"

	"github.com/0chain/common/core/logging"
	"go.uber.org/zap"
	"go.uber.org/zap/zapcore"

	"verifmc/explore/seq"
	"verifmc/rt"
)

type ev struct {
	K    byte // W write, D derive (With), E derive with an empty field list, B burst
	Core int
	N    int
}

func (e ev) String() string {
	switch e.K {
	case 'W':
		return fmt.Sprintf("core%d.Write", e.Core)
	case 'D':
		return fmt.Sprintf("core%d.With(field)", e.Core)
	case 'E':
		return fmt.Sprintf("core%d.With(no fields)", e.Core)
	case 'B':
		return fmt.Sprintf("core%d.Write x%d", e.Core, e.N)
	}
	return "?"
}

// Clock selects the timestamps the harness puts on the entries it writes (the buffer orders by WRITE order,
// whatever the entries' timestamps say): 0 none (zero time), 1 strictly increasing, 2 a coarse clock (equal
// in groups of 5) with a step backwards every 7th entry.
func stamp(clock, seq int) time.Time {
	base := time.Unix(1700000000, 0)
	switch clock {
	case 1:
		return base.Add(time.Duration(seq) * time.Millisecond)
	case 2:
		t := base.Add(time.Duration(seq/5) * time.Second)
		if seq%7 == 3 {
			t = t.Add(-3 * time.Second)
		}
		return t
	}
	return time.Time{}
}

type World struct {
	Clock int
	ML    *logging.MemLogger
	Cores []zapcore.Core
	Seq   int
	All   []int // sequence numbers in write order
}

func NewWorld() *World {
	ml := logging.NewMemLogger(zapcore.NewJSONEncoder(zap.NewProductionEncoderConfig()), zapcore.DebugLevel)
	return &World{ML: ml, Cores: []zapcore.Core{ml.GetCore()}}
}

func (w *World) Write(core int) {
	w.Seq++
	// every third entry carries no fields, the others one or two fields naming the entry (a reused ring slot must
	// not keep anything of the entry it held before)
	var fields []zapcore.Field
	switch w.Seq % 3 {
	case 1:
		fields = []zapcore.Field{zap.Int("seq", w.Seq)}
	case 2:
		fields = []zapcore.Field{zap.Int("seq", w.Seq), zap.String("tag", "t"+strconv.Itoa(w.Seq))}
	}
	_ = w.Cores[core].Write(zapcore.Entry{Level: zapcore.InfoLevel, Message: strconv.Itoa(w.Seq), Time: stamp(w.Clock, w.Seq)}, fields)
	w.All = append(w.All, w.Seq)
}

func (w *World) Apply(e ev) (fail string) {
	defer func() {
		if r := recover(); r != nil {
			fail = fmt.Sprintf("panic: %v", r)
		}
	}()
	switch e.K {
	case 'W':
		w.Write(e.Core)
	case 'B':
		for i := 0; i < e.N; i++ {
			w.Write(e.Core)
		}
	case 'D':
		w.Cores = append(w.Cores, w.Cores[e.Core].With([]zapcore.Field{zap.Int("derived", len(w.Cores))}))
	case 'E':
		// a derivation that adds nothing (logger.With() / WithOptions(zap.Fields())): still a logger of the same buffer
		if len(w.Cores)%2 == 0 {
			w.Cores = append(w.Cores, w.Cores[e.Core].With(nil))
		} else {
			w.Cores = append(w.Cores, w.Cores[e.Core].With([]zapcore.Field{}))
		}
	}
	return ""
}

// Logs returns the buffer's messages as GetLogs yields them.
func Logs(ml *logging.MemLogger) []string {
	var out []string
	for _, l := range ml.GetLogs() {
		if l == nil {
			out = append(out, "<nil>")
		} else {
			out = append(out, l.Entry.Message)
		}
	}
	return out
}

// Check: GetLogs == newest-first last min(total, capacity) entries.
func (w *World) Check() string {
	for _, l := range w.ML.GetLogs() {
		if l == nil {
			continue
		}
		seq, err := strconv.Atoi(l.Entry.Message)
		if err != nil {
			continue
		}
		ok := len(l.Context) == seq%3
		for _, f := range l.Context {
			if (f.Key == "seq" && int(f.Integer) != seq) || (f.Key == "tag" && f.String != "t"+strconv.Itoa(seq)) || (f.Key != "seq" && f.Key != "tag") {
				ok = false
			}
		}
		if !ok {
			return fmt.Sprintf("entry %d is returned with the fields %v; it was written with %d field(s) naming entry %d", seq, l.Context, seq%3, seq)
		}
	}
	got := Logs(w.ML)
	n := len(w.All)
	if n > logging.BufferSize {
		n = logging.BufferSize
	}
	if len(got) != n {
		return fmt.Sprintf("GetLogs returned %d entries, the %d most recent of %d written are expected; head %v", len(got), n, len(w.All), head(got))
	}
	for i := 0; i < n; i++ {
		want := strconv.Itoa(w.All[len(w.All)-1-i])
		if got[i] != want {
			return fmt.Sprintf("GetLogs[%d] = entry %s, want entry %s (newest first, %d written, capacity %d); head %v", i, got[i], want, len(w.All), logging.BufferSize, head(got))
		}
	}
	// the buffer's other read path: WriteLogs (what the HTTP handlers serve) prints one line per retained entry
	var buf bytes.Buffer
	w.ML.WriteLogs(&buf, 0)
	var msgs []string
	for _, l := range strings.Split(buf.String(), "\n") {
		if l == "" {
			continue
		}
		f := strings.Split(l, "\t")
		msgs = append(msgs, f[len(f)-1])
	}
	if len(msgs) != n {
		return fmt.Sprintf("WriteLogs printed %d entries, the %d most recent of %d written are expected; head %v", len(msgs), n, len(w.All), head(msgs))
	}
	for i := 0; i < n; i++ {
		if want := strconv.Itoa(w.All[len(w.All)-1-i]); msgs[i] != want {
			return fmt.Sprintf("WriteLogs line %d is entry %s, want entry %s (newest first, %d written, capacity %d); head %v", i, msgs[i], want, len(w.All), logging.BufferSize, head(msgs))
		}
	}
	return ""
}

func head(s []string) []string {
	if len(s) > 8 {
		return append(append([]string{}, s[:8]...), "...")
	}
	return s
}

func (w *World) key() string {
	// the buffer content and the number of cores decide all futures only together with the
	// private cursors; without a dump the history itself is the state (no merging)
	return ""
}

// SeqPart explores event histories; bursts are sized relative to the compiled capacity.
func SeqPart(rep *rt.Report, tier rt.Tier) *seq.Stats {
	capN := logging.BufferSize
	maxCores, depth := 3, 4
	var bursts []int
	if capN >= 64 {
		bursts = []int{capN - 1, capN, 2*capN + 1}
		if tier == rt.Thorough {
			depth = 5
		}
	} else {
		// small-capacity build: wrap-around is reached by single writes, enumerate deeper
		depth = 8
		if tier == rt.Thorough {
			depth = 10
		}
	}
	var evs []ev
	for c := 0; c < maxCores; c++ {
		evs = append(evs, ev{K: 'W', Core: c})
	}
	for c := 0; c < maxCores-1; c++ {
		evs = append(evs, ev{K: 'D', Core: c}, ev{K: 'E', Core: c})
	}
	for _, b := range bursts {
		for c := 0; c < maxCores; c++ {
			evs = append(evs, ev{K: 'B', Core: c, N: b})
		}
	}
	cfg := seq.Config{
		Name: fmt.Sprintf("sequential-capacity-%d", capN), NOps: len(evs), MaxDepth: depth, Workers: rt.Workers(),
		Deadline: time.Now().Add(map[rt.Tier]time.Duration{rt.Quick: 40 * time.Second, rt.Thorough: 8 * time.Minute}[tier]),
		OpName:   func(i int) string { return evs[i].String() },
		Enabled: func(h []uint8, op int) bool {
			cores, nb := 1, 0
			for _, x := range h {
				if evs[x].K == 'D' || evs[x].K == 'E' {
					cores++
				}
				if evs[x].K == 'B' {
					nb++
				}
			}
			e := evs[op]
			if e.Core >= cores {
				return false
			}
			if e.K == 'D' || e.K == 'E' {
				return cores < maxCores
			}
			if e.K == 'B' {
				return nb < 2 // at most two bursts per history (each costs up to 2049 writes)
			}
			return true
		},
		Run: func(h []uint8) seq.Outcome {
			// each history twice: the buffer is read only at the end / after every event (a reader polls it)
			for mode := 0; mode < 4; mode++ {
				// read only at the end / after every event, with zero timestamps; then read at the end with
				// increasing and with coarse, partly inverted timestamps (order is write order, not time order)
				readAlways := mode == 1
				w := NewWorld()
				w.Clock = []int{0, 0, 1, 2}[mode]
				for i, x := range h {
					if f := w.Apply(evs[x]); f != "" {
						return classify(h, evs, f)
					}
					if readAlways && i < len(h)-1 {
						if f := w.Check(); f != "" {
							return classify(h, evs, fmt.Sprintf("GetLogs had been called after every event; after event %d (%v): %s", i+1, evs[x], f))
						}
					}
				}
				if f := w.Check(); f != "" {
					if readAlways {
						f = "GetLogs had been called after every event: " + f
					}
					return classify(h, evs, f)
				}
			}
			return seq.Outcome{Key: ""} // no private-state dump: the history itself is the state
		},
	}
	st := seq.Explore(cfg)
	return st
}

// classify attributes a failure to the open finding if the history contains a write through a
// derived core or a write through a core after a core was derived from it (the trigger).
func classify(h []uint8, evs []ev, f string) seq.Outcome {
	if rt.OpenFinding("C20-derived-core-private-cursor") { // (finding closed: fixed in /repo; matcher kept inert)
		derived := false
		for _, x := range h {
			if evs[x].K == 'D' {
				derived = true
			}
		}
		if derived && !strings.HasPrefix(f, "panic") {
			return seq.Outcome{Verdict: seq.Known, Finding: "C20-derived-core-private-cursor", Msg: f}
		}
	}
	return seq.Outcome{Verdict: seq.Violation, Msg: f}
}

// Derive appends a core derived from core `from` (core.With(field)).
func (w *World) Derive(from int) { _ = w.Apply(ev{K: 'D', Core: from}) }
