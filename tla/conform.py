#!/usr/bin/env python3
"""Model-check tla/StateCacheProto.tla with TLC for each scenario and turn the complete state graph into a
set of traces that covers EVERY transition; the traces are replayed against the implementation by
`mcsched --conform`. usage: conform.py <outdir> [quick|thorough]; prints one JSON line per scenario file."""
import json, os, re, subprocess, sys, collections

HERE = os.path.dirname(os.path.abspath(__file__))
CHAIN = {"G": "none", "A": "G", "B": "A"}
SCENARIOS = [
 dict(name="M1-commit-vs-get-self-and-parent", blocks=["G","A","B"], parent=CHAIN, write={"G":"1","A":"none","B":"2"},
      pre=["G","A"], committers=["B"], readers=["r1","r2"], query={"r1":"B","r2":"A"}),
 dict(name="M2-commit-removal", blocks=["G","A","B"], parent=CHAIN, write={"G":"1","A":"none","B":"DEL"},
      pre=["G","A"], committers=["B"], readers=["r1","r2"], query={"r1":"B","r2":"B"}),
 dict(name="M3-key-unknown", blocks=["G","A","B"], parent=CHAIN, write={"G":"none","A":"none","B":"2"},
      pre=["G","A"], committers=["B"], readers=["r1","r2"], query={"r1":"B","r2":"A"}),
 dict(name="M4-child-committed-while-parent-commits", blocks=["G","A","B"], parent=CHAIN, write={"G":"1","A":"5","B":"none"},
      pre=["G"], committers=["A","B"], readers=["r1"], query={"r1":"B"}),
 dict(name="M5-sibling-commits", blocks=["G","A","B","C"], parent={"G":"none","A":"G","B":"A","C":"A"}, write={"G":"1","A":"none","B":"2","C":"3"},
      pre=["G","A"], committers=["B","C"], readers=["r1"], query={"r1":"A"}),
]
THOROUGH = [
 dict(name="M6-three-readers", blocks=["G","A","B"], parent=CHAIN, write={"G":"1","A":"none","B":"2"},
      pre=["G","A"], committers=["B"], readers=["r1","r2","r3"], query={"r1":"B","r2":"A","r3":"B"}),
 dict(name="M7-two-commits-two-readers", blocks=["G","A","B"], parent=CHAIN, write={"G":"1","A":"5","B":"2"},
      pre=["G"], committers=["A","B"], readers=["r1","r2"], query={"r1":"B","r2":"A"}),
]

def tla_set(xs): return "{" + ", ".join('"%s"' % x for x in xs) + "}"
def tla_fun(dom, m): return "[x \\in %s |-> CASE %s]" % (dom, " [] ".join('x = "%s" -> "%s"' % (k, v) for k, v in m.items()))

def write_model(sc, d):
    with open(os.path.join(d, "MC.tla"), "w") as f:
        f.write("---- MODULE MC ----\nEXTENDS StateCacheProto\n")
        f.write("MCBlocks == %s\nMCParent == %s\nMCWrite == %s\n" % (tla_set(sc["blocks"]), tla_fun("MCBlocks", sc["parent"]), tla_fun("MCBlocks", sc["write"])))
        f.write("MCPre == %s\nMCCommitters == %s\nMCReaders == %s\nMCQuery == %s\n====\n" % (tla_set(sc["pre"]), tla_set(sc["committers"]), tla_set(sc["readers"]), tla_fun("MCReaders", sc["query"])))
    with open(os.path.join(d, "MC.cfg"), "w") as f:
        f.write("CONSTANTS\n" + "".join("  %s <- MC%s\n" % (c, c) for c in ["Blocks","Parent","Write","Pre","Committers","Readers","Query"]))
        f.write("SPECIFICATION Spec\nINVARIANTS Sound EntriesRight OwnWritesStay NoDeadlock\n")
    subprocess.run(["cp", os.path.join(HERE, "StateCacheProto.tla"), d], check=True)

def parse_fun(s):
    return dict(re.findall(r'(\w+) \|-> "?([\w]+)"?', s))

def parse_state(label):
    v = {}
    for part in label.split("\\n"):            # the dot label separates conjuncts by a literal backslash-n
        m = re.match(r'/\\+ (\w+) = (.*)$', part.strip())
        if m:
            v[m.group(1)] = m.group(2)
    st = dict(known=v["known"].strip() == "TRUE", bvs=parse_fun(v["bvs"]), link=parse_fun(v["link"]), result=parse_fun(v["result"]))
    return st, v["last"].strip().strip('"')

def run(sc, outdir):
    d = os.path.join(outdir, sc["name"]); os.makedirs(d, exist_ok=True)
    write_model(sc, d)
    p = subprocess.run(["tlc", "-deadlock", "-workers", "4", "-dump", "dot,actionlabels", "graph.dot", "MC.tla"], cwd=d, capture_output=True, text=True)
    out = p.stdout + p.stderr
    if "No error has been found" not in out:
        return dict(scenario=sc["name"], tlc_error=out[-3000:])
    nodes, edges, init = {}, collections.defaultdict(list), None
    for line in open(os.path.join(d, "graph.dot")):
        m = re.match(r'(-?\d+) \[label="((?:[^"\\]|\\.)*)"(,tooltip="(?:[^"\\]|\\.)*")?(,style = filled)?\]', line)
        if m:
            nodes[m.group(1)] = parse_state(m.group(2).replace('\\"', '"'))
            if m.group(4): init = m.group(1)
            continue
        m = re.match(r'(-?\d+) -> (-?\d+) ', line)
        if m and m.group(1) != m.group(2):
            edges[m.group(1)].append(m.group(2))
    ne = sum(len(v) for v in edges.values())
    # BFS tree for shortest prefixes
    par = {init: None}; q = collections.deque([init])
    while q:
        u = q.popleft()
        for w in edges[u]:
            if w not in par: par[w] = u; q.append(w)
    def prefix(u):
        p = []
        while par[u] is not None: p.append(u); u = par[u]
        return p[::-1]
    covered, traces = set(), []
    for u in list(par):
        for w in edges[u]:
            if (u, w) in covered: continue
            path = prefix(u) + [w]
            covered.add((u, w)); cur = w
            for a, b in zip([init] + path, path): covered.add((a, b))
            while edges[cur]:                       # extend to a terminal state, preferring uncovered edges
                nxt = next((x for x in edges[cur] if (cur, x) not in covered), edges[cur][0])
                covered.add((cur, nxt)); path.append(nxt); cur = nxt
            traces.append([dict(thread=nodes[n][1], state=nodes[n][0]) for n in path])
    assert len(covered) == ne, (len(covered), ne)
    f = os.path.join(d, "traces.json")
    json.dump(dict(scenario=sc, model=dict(states=len(nodes), transitions=ne), traces=traces), open(f, "w"))
    return dict(scenario=sc["name"], file=f, model_states=len(nodes), model_transitions=ne, traces=len(traces))

if __name__ == "__main__":
    outdir = sys.argv[1]; tier = sys.argv[2] if len(sys.argv) > 2 else "quick"
    for sc in SCENARIOS + (THOROUGH if tier == "thorough" else []):
        print(json.dumps(run(sc, outdir)), flush=True)
