package inputs

import (
	"bytes"
	"context"
	"encoding/binary"
	"encoding/hex"
	"fmt"
	"os"
	"regexp"
	"runtime/debug"
	"sort"
	"strings"
	"sync"
	"sync/atomic"
	"time"

	"github.com/0chain/common/core/encryption"
	"github.com/0chain/common/core/logging"
	"github.com/0chain/common/core/statecache"
	"github.com/0chain/common/core/util"
	"github.com/0chain/common/core/util/wmpt"
	"github.com/fxamacker/cbor/v2"
	"go.uber.org/zap"

	"verifmc/dev"
	"verifmc/rt"
)

func init() { logging.Logger = zap.NewNop() }

var digits = regexp.MustCompile(`[0-9a-fx]+`)

// ---- C15: decoders reject malformed bytes without crashing

type target struct {
	name string
	run  func(b []byte) (accepted bool)
}

var targets = []target{
	{"util.CreateNode", func(b []byte) bool {
		n, err := util.CreateNode(bytes.NewReader(b))
		if err != nil || n == nil {
			return false
		}
		// anything accepted re-encodes without panicking
		_ = n.Encode()
		_ = n.GetHashBytes()
		_ = n.GetNodeType()
		c := n.CloneNode()
		_ = c.Encode()
		return true
	}},
	{"wmpt.DeserializeNode", func(b []byte) bool {
		n, err := wmpt.DeserializeNode(b)
		if err != nil || n == nil {
			return false
		}
		_, _ = n.Serialize()
		_ = n.Hash()
		_ = n.Weight()
		_ = n.CalcHash()
		_ = n.Copy()
		return true
	}},
	{"WeightedMerkleTrie.Deserialize", func(b []byte) bool {
		// a partial trie is built with or without a store behind it (wmpt.New(nil, nil) is the documented way)
		acc := false
		for _, t := range []*wmpt.WeightedMerkleTrie{wmpt.New(nil, dev.NewStore()), wmpt.New(nil, nil)} {
			if err := t.Deserialize(b); err != nil {
				continue
			}
			acc = true
			_ = t.Root()
			_ = t.Weight()
			_, _ = t.GetPath(nil) // re-encoding what was accepted
			_, _, _ = t.GetBlockProof(1)
		}
		return acc
	}},
	{"WeightedMerkleTrie.Deserialize (one trie object reused for every input)", nil},
	{"WeightedMerkleTrie.VerifyBlockProof", func(b []byte) bool {
		ok := false
		for _, blk := range []uint64{0, 1, 2, 3, ^uint64(0)} {
			t := &wmpt.WeightedMerkleTrie{}
			if _, _, err := t.VerifyBlockProof(blk, b); err == nil {
				ok = true
			}
		}
		return ok
	}},
}

// corpus builds real encodings: state-trie nodes of every kind, weighted-trie nodes, path exports, proofs.
func corpus() map[string][][]byte {
	out := map[string][][]byte{}
	add := func(t string, b []byte) {
		if len(b) > 0 {
			out[t] = append(out[t], append([]byte(nil), b...))
		}
	}
	// state trie
	db := util.NewMemoryNodeDB()
	mpt := util.NewMerklePatriciaTrie(db, 5, nil, statecache.NewEmpty())
	for _, kv := range [][2]string{{"", "r"}, {"aa", "x:y"}, {"ab", "z"}, {"aaab", "\x00\xff"}, {"0a1b2c", "leaf"}} {
		_, _ = mpt.Insert(util.Path(kv[0]), &util.SecureSerializableValue{Buffer: []byte(kv[1])})
	}
	_ = db.Iterate(context.Background(), func(ctx context.Context, key util.Key, node util.Node) error {
		add("util.CreateNode", node.Encode())
		if vn := util.GetValueNode(node); vn != nil && vn.Value != nil {
			add("util.CreateNode", vn.Encode())
		}
		return nil
	})
	// weighted trie
	st := dev.NewStore()
	wt := wmpt.New(nil, st)
	keys := [][]byte{}
	for i, nib := range []byte{0x00, 0x01, 0x10, 0x11, 0xf0} {
		k := make([]byte, 32)
		k[0] = nib
		if i == 1 {
			k[31] = 1
		}
		keys = append(keys, k)
		_ = wt.Update(k, []byte(fmt.Sprintf("value-%d", i)), uint64(i+1))
	}
	k63 := make([]byte, 32)
	k63[31] = 1
	_ = wt.Update(k63, []byte("deep"), 2)
	keys = append(keys, k63)
	export := func(t *wmpt.WeightedMerkleTrie) {
		for n := 0; n <= len(keys); n += 2 {
			if p, err := t.GetPath(keys[:n]); err == nil {
				add("WeightedMerkleTrie.Deserialize", p)
			}
		}
		for b := uint64(1); b <= t.Weight(); b += 3 {
			if _, p, err := t.GetBlockProof(b); err == nil {
				add("WeightedMerkleTrie.VerifyBlockProof", p)
			}
		}
	}
	export(wt)
	if b, err := wt.Commit(1); err == nil {
		_ = b.Commit(false)
	}
	export(wt)
	for _, k := range st.Keys() {
		v, _ := st.Get([]byte(k))
		add("wmpt.DeserializeNode", v)
	}
	for _, n := range []wmpt.Node{wmpt.NewHashNode(bytes.Repeat([]byte{7}, 32), 9)} {
		if b, err := n.Serialize(); err == nil {
			add("wmpt.DeserializeNode", b)
		}
	}
	if b, err := wmpt.New(nil, st).GetRoot().Serialize(); err == nil {
		add("wmpt.DeserializeNode", b)
	}
	// every target also sees the other targets' encodings (field splicing across formats)
	all := [][]byte{}
	for _, t := range targets {
		all = append(all, out[t.name]...)
	}
	for _, t := range targets {
		seen := map[string]bool{}
		var uniq [][]byte
		for _, b := range append(out[t.name], all...) {
			if !seen[string(b)] {
				seen[string(b)] = true
				uniq = append(uniq, b)
			}
		}
		out[t.name] = uniq
	}
	return out
}

// mutations enumerates the near-valid neighbourhood of one encoding (complete per rule).
func mutations(b []byte, others [][]byte, thorough bool, emit func([]byte)) {
	n := len(b)
	for i := 0; i <= n; i++ { // every truncation
		emit(b[:i])
	}
	for i := 0; i < n; i++ { // every single-byte deletion
		emit(append(append([]byte{}, b[:i]...), b[i+1:]...))
	}
	special := []byte{0x00, 0x3a, 0x7f, 0x80, 0xff}
	dense := 24
	if thorough {
		dense = 64
	}
	for i := 0; i < n; i++ { // substitutions
		if i < dense {
			for v := 0; v < 256; v++ {
				m := append([]byte{}, b...)
				m[i] = byte(v)
				emit(m)
			}
		} else {
			for _, v := range special {
				m := append([]byte{}, b...)
				m[i] = v
				emit(m)
			}
			if thorough {
				for bit := 0; bit < 8; bit++ {
					m := append([]byte{}, b...)
					m[i] ^= 1 << uint(bit)
					emit(m)
				}
			}
		}
	}
	// separator removal / duplication
	for i := 0; i < n; i++ {
		if b[i] == ':' {
			emit(append(append(append([]byte{}, b[:i]...), ':', ':'), b[i+1:]...))
		}
	}
	// CBOR head inflation: at every position that looks like a head (major types 2,3,4,5), rewrite the
	// length to every additional-information form, including 4- and 8-byte lengths near 2^31 / 2^63
	lens := [][]byte{{0x17}, {0x18, 0xff}, {0x19, 0xff, 0xff}, {0x1a, 0x7f, 0xff, 0xff, 0xff}, {0x1a, 0x80, 0x00, 0x00, 0x00}, {0x1a, 0xff, 0xff, 0xff, 0xff},
		{0x1b, 0x7f, 0xff, 0xff, 0xff, 0xff, 0xff, 0xff, 0xff}, {0x1b, 0x80, 0, 0, 0, 0, 0, 0, 0}, {0x1b, 0xff, 0xff, 0xff, 0xff, 0xff, 0xff, 0xff, 0xff}, {0x1f}}
	limit := n
	if !thorough && limit > 96 {
		limit = 96
	}
	for i := 0; i < limit; i++ {
		mt := b[i] >> 5
		if mt < 2 || mt > 5 {
			continue
		}
		hl := 1
		switch b[i] & 0x1f {
		case 24:
			hl = 2
		case 25:
			hl = 3
		case 26:
			hl = 5
		case 27:
			hl = 9
		}
		if i+hl > n {
			continue
		}
		for _, l := range lens {
			m := append([]byte{}, b[:i]...)
			m = append(m, (mt<<5)|l[0])
			m = append(m, l[1:]...)
			m = append(m, b[i+hl:]...)
			emit(m)
		}
	}
	// splices head(A)+tail(B) at separator / element boundaries (':' and CBOR heads) and at the middle
	cuts := func(x []byte) []int {
		cs := []int{len(x) / 2}
		for i, c := range x {
			if c == ':' || (c>>5 >= 2 && c>>5 <= 5 && i < 48) {
				cs = append(cs, i, i+1)
			}
		}
		sort.Ints(cs)
		return cs
	}
	for _, o := range others {
		if bytes.Equal(o, b) {
			continue
		}
		for _, i := range cuts(b) {
			for _, j := range cuts(o) {
				if i <= len(b) && j <= len(o) {
					emit(append(append([]byte{}, b[:i]...), o[j:]...))
				}
			}
		}
	}
}

// structuralNodes enumerates weighted-trie node encodings that are well-formed CBOR but whose FIELDS have
// every boundary length: child entries of 0..73 and 100 bytes (a child is hash(32)+weight(8), optionally
// +value hash(32)+key), 0..32 children, short-node value/hash/key lengths around 40/32/64, several node
// kinds set at once. (Byte-level mutation cannot reach these: changing a field's length without its CBOR
// head only produces malformed CBOR.)
func structuralNodes() [][]byte {
	var out [][]byte
	enc := func(nb *wmpt.PersistNodeBase) {
		if b, err := cbor.Marshal(nb); err == nil {
			out = append(out, b)
		}
	}
	bytesOf := func(n int, v byte) []byte { return bytes.Repeat([]byte{v}, n) }
	childLens := []int{0, 1, 8, 31, 32, 39, 40, 41, 47, 48, 63, 64, 71, 72, 73, 80, 100, 104, 105, 135, 136, 137, 138, 200, 264, 265, 1000} // 72+n: an embedded shared-prefix child with a key of n nibbles (64 is the longest a real key gives)
	for _, n := range []int{0, 1, 2, 15, 16, 17, 20, 32} {
		for _, l := range childLens {
			// all children of length l
			cs := make([][]byte, n)
			for i := range cs {
				cs[i] = bytesOf(l, byte(i+1))
			}
			enc(&wmpt.PersistNodeBase{Branch: &wmpt.PersistNodeBranch{Hash: bytesOf(32, 9), Children: cs}})
			// one odd child among regular ones
			if n >= 2 {
				cs2 := make([][]byte, n)
				for i := range cs2 {
					cs2[i] = bytesOf(40, byte(i+1))
				}
				cs2[n-1] = bytesOf(l, 7)
				enc(&wmpt.PersistNodeBase{Branch: &wmpt.PersistNodeBranch{Hash: bytesOf(32, 9), Children: cs2}})
			}
		}
	}
	enc(&wmpt.PersistNodeBase{Branch: &wmpt.PersistNodeBranch{}})
	for _, kl := range []int{0, 1, 63, 64, 65, 200} {
		for _, vl := range []int{0, 1, 32, 39, 40, 41, 80} {
			for _, hl := range []int{0, 31, 32, 33} {
				enc(&wmpt.PersistNodeBase{Short: &wmpt.PersistNodeShort{Key: bytesOf(kl, 3), Hash: bytesOf(hl, 5), Value: bytesOf(vl, 1)}})
			}
		}
	}
	for _, vl := range []int{0, 1, 40, 300} {
		for _, hl := range []int{0, 31, 32, 33} {
			for _, w := range []uint64{0, 1, 1 << 63, ^uint64(0)} {
				enc(&wmpt.PersistNodeBase{Value: &wmpt.PersistNodeValue{Value: bytesOf(vl, 'v'), Hash: bytesOf(hl, 2), Weight: w}})
			}
		}
	}
	for _, hl := range []int{0, 1, 31, 32, 33} {
		for _, w := range []uint64{0, 1, ^uint64(0)} {
			enc(&wmpt.PersistNodeBase{HashNode: &wmpt.PersistHashNode{Hash: bytesOf(hl, 4), Weight: w}})
		}
	}
	enc(&wmpt.PersistNodeBase{NilNode: &wmpt.PersistNilNode{}})
	enc(&wmpt.PersistNodeBase{})
	// several kinds at once
	enc(&wmpt.PersistNodeBase{Branch: &wmpt.PersistNodeBranch{Hash: bytesOf(32, 1), Children: [][]byte{bytesOf(40, 1)}}, Value: &wmpt.PersistNodeValue{Value: []byte("v"), Hash: bytesOf(32, 2), Weight: 1}})
	enc(&wmpt.PersistNodeBase{Short: &wmpt.PersistNodeShort{Key: []byte{1}, Hash: bytesOf(32, 1), Value: bytesOf(40, 1)}, HashNode: &wmpt.PersistHashNode{Hash: bytesOf(32, 1), Weight: 1}})
	return out
}

// structuralTries wraps node encodings into path exports / proofs: every single element, and every pair
// (container element first, then every node).
func structuralTries(nodes [][]byte) [][]byte {
	var out [][]byte
	wrap := func(es ...[]byte) {
		pt := wmpt.PersistTrie{}
		for _, e := range es {
			pt.Pairs = append(pt.Pairs, &wmpt.PersistTriePair{Value: e})
		}
		if b, err := cbor.Marshal(&pt); err == nil {
			out = append(out, b)
		}
	}
	wrap()
	var containers [][]byte
	for _, n := range nodes {
		wrap(n)
		var nb wmpt.PersistNodeBase
		if cbor.Unmarshal(n, &nb) == nil && (nb.Branch != nil || nb.Short != nil) && len(containers) < 60 {
			containers = append(containers, n)
		}
	}
	for _, c := range containers {
		for _, n := range nodes {
			wrap(c, n)
		}
	}
	return out
}

// panicSite extracts the frames of the code under test from the current stack (called in recover).
// scaledInputs: well-formed but LARGE inputs (sizes no real trie produces, any peer can send): deep chains
// of one-nibble shared-prefix nodes with true hashes and with a wrong hash at the bottom, a flat export of
// many entries, long fields. Decoding work must stay proportional to the input (the watchdog bounds it).
func scaledInputs(thorough bool) map[string][][]byte {
	out := map[string][][]byte{}
	chain := func(depth int, consistent bool) []byte {
		const weight = 7
		value := []byte("v")
		m := binary.BigEndian.AppendUint64(nil, weight)
		m = append(m, value...)
		childHash := encryption.RawHash(m)
		if !consistent {
			childHash = encryption.RawHash([]byte("not the value's hash"))
		}
		vb, err := cbor.Marshal(&wmpt.PersistNodeBase{Value: &wmpt.PersistNodeValue{Value: value, Hash: childHash, Weight: weight}})
		if err != nil {
			panic(err)
		}
		pairs := make([]*wmpt.PersistTriePair, depth+1)
		pairs[depth] = &wmpt.PersistTriePair{Value: vb}
		key := []byte{1}
		for i := depth - 1; i >= 0; i-- {
			hw := make([]byte, 40)
			copy(hw, childHash)
			binary.BigEndian.PutUint64(hw[32:], weight)
			hash := encryption.RawHash(append(append([]byte{}, key...), childHash...))
			b, err := cbor.Marshal(&wmpt.PersistNodeBase{Short: &wmpt.PersistNodeShort{Key: key, Hash: hash, Value: hw}})
			if err != nil {
				panic(err)
			}
			pairs[i] = &wmpt.PersistTriePair{Value: b}
			childHash = hash
		}
		data, err := cbor.Marshal(&wmpt.PersistTrie{Pairs: pairs})
		if err != nil {
			panic(err)
		}
		return data
	}
	depths := []int{64, 1000, 20000}
	if thorough {
		depths = append(depths, 100000)
	}
	for _, d := range depths {
		for _, ok := range []bool{true, false} {
			e := chain(d, ok)
			out["WeightedMerkleTrie.Deserialize"] = append(out["WeightedMerkleTrie.Deserialize"], e)
			out["WeightedMerkleTrie.VerifyBlockProof"] = append(out["WeightedMerkleTrie.VerifyBlockProof"], e)
		}
	}
	// a flat export: the same small value node many times
	{
		vb, _ := cbor.Marshal(&wmpt.PersistNodeBase{Value: &wmpt.PersistNodeValue{Value: []byte("v"), Hash: encryption.RawHash([]byte("x")), Weight: 1}})
		for _, n := range []int{1000, 200000} {
			pairs := make([]*wmpt.PersistTriePair, n)
			for i := range pairs {
				pairs[i] = &wmpt.PersistTriePair{Value: vb}
			}
			data, _ := cbor.Marshal(&wmpt.PersistTrie{Pairs: pairs})
			out["WeightedMerkleTrie.Deserialize"] = append(out["WeightedMerkleTrie.Deserialize"], data)
			out["WeightedMerkleTrie.VerifyBlockProof"] = append(out["WeightedMerkleTrie.VerifyBlockProof"], data)
		}
	}
	// large exports with ONE bad entry (null, empty, garbage, truncated node) at the front, in the middle, at the end
	{
		big := chain(300, true)
		var pt wmpt.PersistTrie
		if cbor.Unmarshal(big, &pt) == nil {
			for _, pos := range []int{0, 1, len(pt.Pairs) / 2, len(pt.Pairs) - 2, len(pt.Pairs) - 1} {
				for kind := 0; kind < 4; kind++ {
					pairs := append([]*wmpt.PersistTriePair{}, pt.Pairs...)
					switch kind {
					case 0:
						pairs[pos] = nil
					case 1:
						pairs[pos] = &wmpt.PersistTriePair{}
					case 2:
						pairs[pos] = &wmpt.PersistTriePair{Value: []byte{0xff, 0x00, 0x13}}
					case 3:
						pairs[pos] = &wmpt.PersistTriePair{Value: pt.Pairs[pos].Value[:len(pt.Pairs[pos].Value)/2]}
					}
					if data, err := cbor.Marshal(&wmpt.PersistTrie{Pairs: pairs}); err == nil {
						out["WeightedMerkleTrie.Deserialize"] = append(out["WeightedMerkleTrie.Deserialize"], data)
						out["WeightedMerkleTrie.VerifyBlockProof"] = append(out["WeightedMerkleTrie.VerifyBlockProof"], data)
					}
				}
			}
		}
	}
	// long fields in single nodes
	for _, n := range []int{1 << 16, 1 << 20} {
		long := bytes.Repeat([]byte{3}, n)
		if b, err := cbor.Marshal(&wmpt.PersistNodeBase{Short: &wmpt.PersistNodeShort{Key: long, Hash: encryption.RawHash(long), Value: make([]byte, 40)}}); err == nil {
			out["wmpt.DeserializeNode"] = append(out["wmpt.DeserializeNode"], b)
		}
		if b, err := cbor.Marshal(&wmpt.PersistNodeBase{Value: &wmpt.PersistNodeValue{Value: long, Hash: encryption.RawHash(long), Weight: 1}}); err == nil {
			out["wmpt.DeserializeNode"] = append(out["wmpt.DeserializeNode"], b)
		}
		// state-trie nodes: a leaf / branch / extension type byte followed by n separator or filler bytes
		for _, tb := range []byte{1, 2, 3, 4} {
			for _, fill := range []byte{':', 'a', 0} {
				out["util.CreateNode"] = append(out["util.CreateNode"], append([]byte{tb}, bytes.Repeat([]byte{fill}, n)...))
			}
		}
	}
	return out
}

// kindCollisions: node hashes carry no kind tag (a shared-prefix node hashes key||valueHash, a value node
// weight||value, a branch weight||child hashes), so an entry of one kind can be replaced by an entry of ANOTHER
// kind with the SAME true hash. For every entry of an export/proof: the equal-hash substitute where one can
// be constructed, and substitutes of every other kind that merely repeat the recorded hash field; with and
// without the entries that followed.
func kindCollisions(b []byte, emit func([]byte)) {
	var pt wmpt.PersistTrie
	if cbor.Unmarshal(b, &pt) != nil || len(pt.Pairs) == 0 {
		return
	}
	be := func(v uint64) []byte { return binary.BigEndian.AppendUint64(nil, v) }
	for i, pr := range pt.Pairs {
		if pr == nil {
			continue
		}
		var nb wmpt.PersistNodeBase
		if cbor.Unmarshal(pr.Value, &nb) != nil {
			continue
		}
		var subs []*wmpt.PersistNodeBase
		switch {
		case nb.Short != nil:
			s := nb.Short
			if len(s.Key) >= 8 && len(s.Value) >= 32 {
				subs = append(subs, &wmpt.PersistNodeBase{Value: &wmpt.PersistNodeValue{Value: append(append([]byte{}, s.Key[8:]...), s.Value[:32]...), Hash: s.Hash, Weight: binary.BigEndian.Uint64(s.Key[:8])}})
			}
			subs = append(subs,
				&wmpt.PersistNodeBase{Value: &wmpt.PersistNodeValue{Value: []byte("x"), Hash: s.Hash, Weight: 1}},
				&wmpt.PersistNodeBase{Branch: &wmpt.PersistNodeBranch{Hash: s.Hash}},
				&wmpt.PersistNodeBase{HashNode: &wmpt.PersistHashNode{Hash: s.Hash, Weight: 1}})
		case nb.Value != nil:
			v := nb.Value
			if len(v.Value) >= 32 {
				key := append(be(v.Weight), v.Value[:len(v.Value)-32]...)
				for _, w := range []uint64{0, v.Weight} {
					subs = append(subs, &wmpt.PersistNodeBase{Short: &wmpt.PersistNodeShort{Key: key, Hash: v.Hash, Value: append(append([]byte{}, v.Value[len(v.Value)-32:]...), be(w)...)}})
				}
			}
			subs = append(subs,
				&wmpt.PersistNodeBase{Short: &wmpt.PersistNodeShort{Key: []byte{1}, Hash: v.Hash, Value: make([]byte, 40)}},
				&wmpt.PersistNodeBase{Branch: &wmpt.PersistNodeBranch{Hash: v.Hash}},
				&wmpt.PersistNodeBase{HashNode: &wmpt.PersistHashNode{Hash: v.Hash, Weight: v.Weight}})
		case nb.Branch != nil:
			br := nb.Branch
			var cat []byte
			var total uint64
			ok := len(br.Children) == 16
			for _, c := range br.Children {
				if len(c) != 40 {
					ok = false
					break
				}
				cat = append(cat, c[:32]...)
				total += binary.BigEndian.Uint64(c[32:])
			}
			if ok {
				subs = append(subs, &wmpt.PersistNodeBase{Value: &wmpt.PersistNodeValue{Value: cat, Hash: br.Hash, Weight: total}})
			}
			subs = append(subs,
				&wmpt.PersistNodeBase{Value: &wmpt.PersistNodeValue{Value: []byte("x"), Hash: br.Hash, Weight: 1}},
				&wmpt.PersistNodeBase{Short: &wmpt.PersistNodeShort{Key: []byte{1}, Hash: br.Hash, Value: make([]byte, 40)}},
				&wmpt.PersistNodeBase{HashNode: &wmpt.PersistHashNode{Hash: br.Hash, Weight: total}})
		}
		for _, sb := range subs {
			enc, err := cbor.Marshal(sb)
			if err != nil {
				continue
			}
			for _, keepTail := range []bool{false, true} {
				pairs := append([]*wmpt.PersistTriePair{}, pt.Pairs[:i]...)
				pairs = append(pairs, &wmpt.PersistTriePair{Value: enc})
				if keepTail {
					pairs = append(pairs, pt.Pairs[i+1:]...)
				}
				if out, err := cbor.Marshal(&wmpt.PersistTrie{Pairs: pairs}); err == nil {
					emit(out)
				}
			}
		}
	}
}

func panicSite() string {
	var out []string
	lines := strings.Split(string(debug.Stack()), "\n")
	for i := 0; i+1 < len(lines); i++ {
		if strings.Contains(lines[i], "github.com/0chain/common/") {
			out = append(out, strings.TrimSpace(lines[i])+" @ "+strings.TrimSpace(lines[i+1]))
		}
		if len(out) >= 4 {
			break
		}
	}
	return "    at " + strings.Join(out, "\n    at ")
}

// cborItems returns the [start,end) spans of every data item of a well-formed CBOR encoding
// (definite lengths only; nil if the bytes are not of that form).
func cborItems(b []byte) [][2]int {
	var spans [][2]int
	var item func(i int) int
	item = func(i int) int {
		if i >= len(b) {
			return -1
		}
		start := i
		mt, ai := b[i]>>5, int(b[i]&0x1f)
		i++
		var n uint64
		switch {
		case ai < 24:
			n = uint64(ai)
		case ai == 24:
			if i+1 > len(b) {
				return -1
			}
			n, i = uint64(b[i]), i+1
		case ai == 25:
			if i+2 > len(b) {
				return -1
			}
			n, i = uint64(b[i])<<8|uint64(b[i+1]), i+2
		case ai == 26:
			if i+4 > len(b) {
				return -1
			}
			n, i = uint64(b[i])<<24|uint64(b[i+1])<<16|uint64(b[i+2])<<8|uint64(b[i+3]), i+4
		case ai == 27:
			if i+8 > len(b) {
				return -1
			}
			for k := 0; k < 8; k++ {
				n = n<<8 | uint64(b[i+k])
			}
			i += 8
		default:
			return -1
		}
		switch mt {
		case 2, 3:
			if n > uint64(len(b)-i) {
				return -1
			}
			i += int(n)
		case 4:
			for k := uint64(0); k < n; k++ {
				if i = item(i); i < 0 {
					return -1
				}
			}
		case 5:
			for k := uint64(0); k < 2*n; k++ {
				if i = item(i); i < 0 {
					return -1
				}
			}
		case 6:
			if i = item(i); i < 0 {
				return -1
			}
		}
		spans = append(spans, [2]int{start, i})
		return i
	}
	if end := item(0); end != len(b) {
		return nil
	}
	return spans
}

// typeConfusions replaces every data item of a well-formed CBOR encoding (also the items inside the
// byte strings that themselves hold CBOR: proof and export elements) by items of other types: null,
// 0, empty byte string, empty array, empty map, a one-element array, true, a huge integer.
func typeConfusions(b []byte, depth int, emit func([]byte)) {
	repl := [][]byte{{0xf6}, {0x00}, {0x40}, {0x80}, {0xa0}, {0x81, 0xf6}, {0xf5}, {0x1b, 0xff, 0xff, 0xff, 0xff, 0xff, 0xff, 0xff, 0xff}, {0x60}}
	for _, sp := range cborItems(b) {
		for _, r := range repl {
			emit(append(append(append([]byte{}, b[:sp[0]]...), r...), b[sp[1]:]...))
		}
		// a byte string that holds CBOR itself: confuse the inner items and re-wrap with a correct head
		if depth > 0 && b[sp[0]]>>5 == 2 {
			hl := 1
			switch b[sp[0]] & 0x1f {
			case 24:
				hl = 2
			case 25:
				hl = 3
			case 26:
				hl = 5
			case 27:
				hl = 9
			}
			inner := b[sp[0]+hl : sp[1]]
			if len(inner) > 2 && cborItems(inner) != nil {
				typeConfusions(inner, depth-1, func(m []byte) {
					var head []byte
					switch {
					case len(m) < 24:
						head = []byte{0x40 | byte(len(m))}
					case len(m) < 256:
						head = []byte{0x58, byte(len(m))}
					default:
						head = []byte{0x59, byte(len(m) >> 8), byte(len(m))}
					}
					emit(append(append(append(append([]byte{}, b[:sp[0]]...), head...), m...), b[sp[1]:]...))
				})
			}
		}
	}
}

// nestedMutations damages the CBOR held inside the byte strings of a well-formed CBOR encoding and wraps the
// result in a byte-string head of the right length again (a decoder that reads the envelope with a library
// and the elements by hand sees a sound envelope around a damaged element).
func nestedMutations(b []byte, emit func([]byte)) {
	wrap := func(sp [2]int, m []byte) {
		var head []byte
		switch {
		case len(m) < 24:
			head = []byte{0x40 | byte(len(m))}
		case len(m) < 256:
			head = []byte{0x58, byte(len(m))}
		default:
			head = []byte{0x59, byte(len(m) >> 8), byte(len(m))}
		}
		emit(append(append(append(append([]byte{}, b[:sp[0]]...), head...), m...), b[sp[1]:]...))
	}
	for _, sp := range cborItems(b) {
		if b[sp[0]]>>5 != 2 {
			continue
		}
		hl := 1
		switch b[sp[0]] & 0x1f {
		case 24:
			hl = 2
		case 25:
			hl = 3
		case 26:
			hl = 5
		case 27:
			hl = 9
		}
		inner := b[sp[0]+hl : sp[1]]
		if len(inner) <= 2 || len(inner) > 400 || cborItems(inner) == nil {
			continue
		}
		n := len(inner)
		for i := 0; i < n; i++ {
			wrap(sp, inner[:i])                                              // truncation
			wrap(sp, append(append([]byte{}, inner[:i]...), inner[i+1:]...)) // deletion
			for _, v := range []byte{0x00, 0x7f, 0x80, 0xff} {
				m := append([]byte{}, inner...)
				m[i] = v
				wrap(sp, m)
			}
			// the additional-information bits of a head: every width form, the payload bytes left as they are
			// (a 4-byte integer announced as 8 bytes, an 8-byte one as 1 byte, an indefinite length, ...)
			for _, ai := range []byte{0, 23, 24, 25, 26, 27, 28, 31} {
				if inner[i]&0x1f != ai {
					m := append([]byte{}, inner...)
					m[i] = inner[i]&0xe0 | ai
					wrap(sp, m)
				}
			}
		}
	}
}

type c15state struct {
	mu       sync.Mutex
	rep      *rt.Report
	evals    int64
	accepted int64
	distinct map[string]int
	perTgt   map[string]int64
}

func C15(tier rt.Tier) int {
	rep := rt.NewReport("C15", tier)
	st := &c15state{rep: rep, distinct: map[string]int{}, perTgt: map[string]int64{}}
	thorough := tier == rt.Thorough
	maxLen := 2
	if thorough {
		maxLen = 3
	}
	corp := corpus()
	structNodes := structuralNodes()
	structTries := structuralTries(structNodes)
	scaled := scaledInputs(thorough)
	rep.Set("structural_node_encodings", len(structNodes))
	rep.Set("structural_trie_encodings", len(structTries))
	// current input per worker, for the hang watchdog
	nw := rt.Workers()
	current := make([]atomic.Value, nw)
	stamp := make([]int64, nw)
	done := make(chan struct{})
	go func() {
		t := time.NewTicker(5 * time.Second)
		defer t.Stop()
		for {
			select {
			case <-done:
				return
			case <-t.C:
				now := time.Now().Unix()
				for i := range current {
					s := atomic.LoadInt64(&stamp[i])
					if s != 0 && now-s > 120 {
						v, _ := current[i].Load().(string)
						fmt.Printf("HANG-SUSPECT %s\n", v)
						rep.Violate("decoder did not return within 120 s: "+v, map[string]any{"input": v})
						os.Exit(rep.Finish())
					}
				}
			}
		}
	}()
	type job struct {
		t target
		b []byte
	}
	jobs := make(chan []job, 64)
	var wg sync.WaitGroup
	var failOnce sync.Map
	for w := 0; w < nw; w++ {
		wg.Add(1)
		go func(w int) {
			defer wg.Done()
			var reused *wmpt.WeightedMerkleTrie
			for batch := range jobs {
				for _, j := range batch {
					func() {
						if len(j.b) > 4096 {
							current[w].Store(fmt.Sprintf("%s on a %d-byte input beginning %x", j.t.name, len(j.b), j.b[:64]))
						} else {
							current[w].Store(j.t.name + " " + hex.EncodeToString(j.b))
						}
						atomic.StoreInt64(&stamp[w], time.Now().Unix())
						defer func() {
							atomic.StoreInt64(&stamp[w], 0)
							if r := recover(); r != nil {
								msg := fmt.Sprintf("%v", r)
								if len(msg) > 60 {
									msg = msg[:60]
								}
								key := j.t.name + "|" + digits.ReplaceAllString(msg, "N")
								if _, dup := failOnce.LoadOrStore(key, true); !dup {
									rep.Violate(fmt.Sprintf("%s panics on input %x: %v\n%s", j.t.name, j.b, r, panicSite()), map[string]any{"target": j.t.name, "input_hex": hex.EncodeToString(j.b)})
								} else {
									rep.Add("violations_suppressed_duplicates", 1)
								}
							}
						}()
						var acc bool
						if j.t.run == nil {
							// the same object decodes input after input (accepted or rejected): a rejected input must leave it usable
							if reused == nil {
								reused = wmpt.New(nil, dev.NewStore())
							}
							acc = reused.Deserialize(j.b) == nil
							_, _, _ = reused.VerifyBlockProof(1, j.b)
							_ = reused.Weight()
						} else {
							acc = j.t.run(j.b)
						}
						atomic.AddInt64(&st.evals, 1)
						if acc {
							atomic.AddInt64(&st.accepted, 1)
						}
					}()
				}
			}
		}(w)
	}
	send := func(t target) func([]byte) {
		var batch []job
		return func(b []byte) {
			if b == nil && len(batch) == 0 {
				return
			}
			if b != nil {
				batch = append(batch, job{t, b})
			}
			if b == nil || len(batch) >= 2048 {
				jobs <- batch
				batch = nil
			}
		}
	}
	for _, t := range targets {
		emit := send(t)
		ck := t.name // the corpus the target draws from
		if strings.HasPrefix(ck, "WeightedMerkleTrie.Deserialize") {
			ck = "WeightedMerkleTrie.Deserialize"
		}
		count := int64(0)
		// (a) all byte strings up to maxLen
		emit([]byte{})
		count++
		for l := 1; l <= maxLen; l++ {
			total := 1
			for i := 0; i < l; i++ {
				total *= 256
			}
			for v := 0; v < total; v++ {
				b := make([]byte, l)
				x := v
				for i := l - 1; i >= 0; i-- {
					b[i] = byte(x)
					x >>= 8
				}
				emit(b)
				count++
			}
		}
		// (b) the near-valid neighbourhood of every corpus encoding
		for _, c := range corp[ck] {
			mutations(c, corp[ck], thorough, func(m []byte) { emit(m); count++ })
		}
		// (d) CBOR type confusion: every data item (also inside embedded elements) replaced by null, 0,
		// empty string/array/map, ...
		if ck != "util.CreateNode" {
			for _, c := range corp[ck] {
				typeConfusions(c, 1, func(m []byte) { emit(m); count++ })
			}
		}
		// (d'') byte-level damage INSIDE an embedded element, the envelope staying well-formed: every
		// truncation, every single-byte deletion, every width change of an integer or length head and the
		// special byte values at every position of each embedded element, re-wrapped with a correct head
		if ck != "util.CreateNode" {
			for _, c := range corp[ck] {
				nestedMutations(c, func(m []byte) { emit(m); count++ })
			}
		}
		// (d') kind confusion with equal hashes
		if ck == "WeightedMerkleTrie.Deserialize" || ck == "WeightedMerkleTrie.VerifyBlockProof" {
			for _, c := range corp[ck] {
				kindCollisions(c, func(m []byte) { emit(m); count++ })
			}
		}
		// (c) structure-aware enumeration of field lengths for the CBOR formats
		switch ck {
		case "wmpt.DeserializeNode":
			for _, n := range structNodes {
				emit(n)
				count++
			}
		case "WeightedMerkleTrie.Deserialize", "WeightedMerkleTrie.VerifyBlockProof":
			for _, n := range structTries {
				emit(n)
				count++
			}
		}
		// (e) large well-formed inputs
		for _, b := range scaled[ck] {
			emit(b)
			count++
		}
		emit(nil)
		st.perTgt[t.name] = count
	}
	close(jobs)
	wg.Wait()
	close(done)
	csize := 0
	for _, t := range targets {
		csize += len(corp[t.name])
	}
	rep.Set("evaluations", int(st.evals))
	rep.Set("states", csize)
	rep.Set("transitions", int(st.evals))
	rep.Set("traces_validated_against_impl", int(st.evals))
	rep.Set("distinct_nontrivial", int(st.evals))
	rep.Set("accepted_inputs", int(st.accepted))
	rep.Set("inputs_per_decoder", st.perTgt)
	rep.Set("corpus_encodings", csize)
	rep.Set("rule", fmt.Sprintf("for each of the four decoders (the path-export decoder also in a variant where ONE trie object decodes input after input, so that a rejected input must leave the object usable): ALL byte strings of length <= %d, plus for every real encoding of the corpus (state-trie nodes of every kind, weighted-trie nodes incl. branches with embedded short children, path exports, block proofs; each decoder also sees the other formats): every truncation, every single-byte deletion, every byte value at each of the first 24 (thorough 64) positions and {00,3a,7f,80,ff} (+ every bit flip in thorough) elsewhere, separator duplication, every CBOR head rewritten to every length form incl. 4/8-byte lengths near 2^31/2^63 and indefinite, every splice head(A)+tail(B) at separator/head boundaries; plus a structure-aware enumeration for the CBOR formats: well-formed nodes whose fields take every boundary length (child entries of 0..100 bytes, 0..32 children, short-node key/value/hash lengths, several kinds at once), alone and as first/second element of exports and proofs; and CBOR type confusion: every data item of every corpus encoding, also inside embedded proof/export elements, replaced by null, 0, true, a huge integer, empty byte/text string, empty array, empty map, [null]; every entry of every export/proof replaced by an entry of another node kind with the same true hash where constructible (node hashes carry no kind tag) and by entries of every other kind repeating the recorded hash, with and without the entries behind it; plus large well-formed inputs: path exports that are chains of 64/1000/20000 (thorough 100000) one-nibble shared-prefix nodes with true hashes and with a wrong bottom hash, flat exports of 1000/200000 entries, a 301-entry export with one null / empty / garbage / truncated entry at the front, in the middle and at the end, nodes with 2^16/2^20-byte fields, state-trie type bytes followed by 2^16/2^20 separator/filler bytes; oracle: returns value or error without panic within 120 s, anything accepted is re-encoded/hashed/copied without panic; 'states' = corpus encodings; inputs are counted, not deduplicated", maxLen))
	rep.Sample(map[string]any{"decoder": "util.CreateNode", "input_hex": "02"})
	if c := corp["wmpt.DeserializeNode"]; len(c) > 0 {
		rep.Sample(map[string]any{"decoder": "wmpt.DeserializeNode", "corpus_encoding_hex": hex.EncodeToString(c[0])})
	}
	rep.Assumption("memory exhaustion would abort the process (reported by the wrapper as a harness error, to be investigated), it is not converted into a verdict")
	return rep.Finish()
}
