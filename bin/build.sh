#!/bin/bash
# bin/build.sh <mccheck|mcsched|mcrace> : (re)build one harness binary against /repo's working tree
set -u
here="$(cd "$(dirname "$0")" && pwd)"
. "$here/env.sh"
mkdir -p "$VERIF_ROOT/.build"
cd "$VERIF_ROOT/mc" || exit 2
case "$1" in
  mccheck)
    go build -o "$VERIF_ROOT/.build/mccheck" ./cmd/mccheck ;;
  *) echo "unknown binary $1" >&2; exit 2 ;;
esac
