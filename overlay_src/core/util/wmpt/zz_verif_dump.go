package wmpt

// Added to the package at build time through `go build -overlay` by the /verif
// harness (never part of /repo): read-only rendering of the private trie state.

import (
	"fmt"
	"sort"
	"strings"
)

func verifNode(n Node, sb *strings.Builder) {
	switch x := n.(type) {
	case nil:
		sb.WriteString("-")
	case *nilNode:
		sb.WriteString("nil")
	case *hashNode:
		fmt.Fprintf(sb, "H(%x,%d)", x.hash, x.weight)
	case *valueNode:
		fmt.Fprintf(sb, "V(%x,%q,%d,d=%v)", x.hash, x.value, x.weight, x.dirty)
	case *shortNode:
		fmt.Fprintf(sb, "S(%x,%x,d=%v,c=%v,", x.hash, x.key, x.dirty, x.toCollect)
		verifNode(x.value, sb)
		sb.WriteString(")")
	case *routingNode:
		fmt.Fprintf(sb, "R(%x,%d,d=%v,c=%v", x.hash, x.weight, x.dirty, x.toCollect)
		for i, c := range x.Children {
			if c != nil {
				fmt.Fprintf(sb, ",%x:", i)
				verifNode(c, sb)
			}
		}
		sb.WriteString(")")
	default:
		fmt.Fprintf(sb, "?%T", n)
	}
}

func verifHashes(hs [][]byte) string {
	var out []string
	for _, h := range hs {
		out = append(out, fmt.Sprintf("%x", h))
	}
	sort.Strings(out)
	return strings.Join(out, ",")
}

// VerifDump renders root structure, checkpoint and garbage-collection sets.
func VerifDump(t *WeightedMerkleTrie) string {
	var sb strings.Builder
	verifNode(t.root, &sb)
	fmt.Fprintf(&sb, "|old(%x,%d)|tmp[%s]|created[%s]|del[", t.oldRoot.hash, t.oldRoot.weight, verifHashes(t.tempDeleted), verifHashes(t.created))
	var ds []string
	for k := range t.deleted {
		ds = append(ds, fmt.Sprintf("%x", k[:]))
	}
	sort.Strings(ds)
	sb.WriteString(strings.Join(ds, ",") + "]")
	return sb.String()
}

// VerifCreated returns the hashes the last commit recorded as created.
func VerifCreated(t *WeightedMerkleTrie) [][]byte { return t.created }
