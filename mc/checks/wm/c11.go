package wm

import (
	"fmt"
	"strings"
	"time"

	"verifmc/explore/seq"

	"verifmc/dev"
	"verifmc/rt"
)

// c11Oracle: after each batch commit and each DeleteNodes the last committed root is
// recoverable from storage alone; for every crash point inside the last operation's
// writes the last durably committed root is recoverable.
func c11Oracle(w *World, last Op) string {
	c := w.lastCommit()
	if c == nil {
		return ""
	}
	if last.K == 'C' || last.K == 'G' || last.K == 'B' || last.K == 'T' {
		if f := recoverable(w.S, *c, "after "+last.String()); f != "" {
			return f
		}
	}
	// crash points: every prefix of the log that ends inside the writes of the last operation
	log := w.S.Snapshot()
	prev := 0
	if len(w.Commits) >= 2 && last.K == 'C' {
		prev = w.Commits[len(w.Commits)-2].logLen
	} else if last.K == 'C' {
		prev = 0
	} else {
		prev = c.logLen
	}
	if last.K != 'C' && last.K != 'G' && last.K != 'B' && last.K != 'T' {
		return ""
	}
	for cut := prev; cut < len(log); cut++ {
		// the last commit whose batch lies inside the prefix
		var durable *commitPoint
		for i := range w.Commits {
			if w.Commits[i].logLen <= cut {
				durable = &w.Commits[i]
			}
		}
		if durable == nil {
			continue
		}
		if w.RolledBack && w.Chk != nil {
			durable = w.Chk // after a rollback the checkpoint is the committed state
		}
		s := dev.FromLog(log[:cut])
		if f := recoverable(s, *durable, fmt.Sprintf("crash after %d of %d storage writes (during %s)", cut, len(log), last)); f != "" {
			return f
		}
	}
	return ""
}

// c11Classify attributes failures to open known findings by model-level predicates; everything else is a violation.
func c11Classify(w *World, last Op, f string) seq.Outcome {
	notFound := strings.Contains(f, "not found")
	if rt.OpenFinding("C11-gc-ahead-of-commit") && last.K == 'G' && w.GCPending >= 2 && notFound && strings.Contains(f, "trie reopened from root") {
		return seq.Outcome{Verdict: seq.Known, Finding: "C11-gc-ahead-of-commit", Msg: f}
	}
	return seq.Outcome{Verdict: seq.Violation, Msg: f}
}

// C11: committed trie recoverable; garbage collection keeps live nodes.
func C11(tier rt.Tier) int {
	rep := rt.NewReport("C11", tier)
	var runs []cfg
	per := 30 * time.Second
	if tier == rt.Quick {
		runs = []cfg{
			{name: "distinct-values-3keys", keys: []int{0, 2, 5}, vals: []string{"a", "b"}, levels: []int{0, 1, 64}, gc: true, rootOp: true, depth: 6, c11: true, maxNoDup: 4},
			{name: "4keys", keys: []int{0, 1, 2, 4}, vals: []string{"a"}, levels: []int{0, 64}, gc: true, rootOp: true, depth: 6, c11: true, maxNoDup: 4},
		}
	} else {
		per = 8 * time.Minute
		runs = []cfg{
			{name: "distinct-values-3keys", keys: []int{0, 2, 5}, vals: []string{"a", "b"}, levels: []int{0, 1, 2, 64}, gc: true, rootOp: true, reload: true, depth: 9, c11: true, maxNoDup: 5},
			{name: "5keys", keys: []int{0, 1, 2, 4, 5}, vals: []string{"a", "b"}, levels: []int{0, 1, 64}, gc: true, rootOp: true, depth: 8, c11: true, maxNoDup: 5},
		}
	}
	for _, c := range runs {
		runCfg(rep, c, time.Now().Add(per), c11Classify)
	}
	rep.Set("dedup", haveDump)
	rep.Set("rule", "BFS over all histories of {Update, delete, re-add of identical content (two values only), Root() at any time, Commit(level)+batch.Commit, DeleteNodes anywhere and repeatedly, reload}; after every batch commit and every DeleteNodes a trie reopened from just (root hash, weight) on the same storage must equal the model: total weight and, for every block, owner, value and a verifying proof; for EVERY prefix of the storage write log inside the last operation the last durably committed root must be recoverable the same way")
	rep.Assumption("crash model: prefix of the storage write log, batches atomic (Pebble NoSync batch semantics)")
	return rep.Finish()
}
