// Package sc holds the sequential state-cache harnesses (C06, C07).
package sc

import (
	"fmt"
	"sort"
	"strings"

	"github.com/0chain/common/core/logging"
	"github.com/0chain/common/core/statecache"
	"github.com/0chain/common/core/util"
	"go.uber.org/zap"
)

func init() { logging.Logger = zap.NewNop() }

// ---------------------------------------------------------------- values

// MutVal is a mutable harness value with a correct deep Clone.
type MutVal struct{ B []byte }

func (m *MutVal) Clone() statecache.Value { return &MutVal{B: append([]byte(nil), m.B...)} }
func (m *MutVal) CopyFrom(v interface{}) bool {
	o, ok := v.(*MutVal)
	if !ok {
		return false
	}
	m.B = append([]byte(nil), o.B...)
	return true
}
func (m *MutVal) Encode() []byte { return m.B }

func key32(label string) []byte {
	k := make([]byte, 32)
	copy(k, label)
	return k
}

// mkVal builds a value of the given kind carrying label; render gives its snapshot.
func mkVal(kind int, label string) statecache.Value {
	v := mkVal0(kind, label)
	// trie nodes carry a version mark that differs from their origin (as nodes visited by a pruning pass do):
	// a copy that loses the mark is a different value
	if n, ok := v.(interface {
		SetOrigin(util.Sequence)
		SetVersion(util.Sequence)
	}); ok {
		n.SetOrigin(5)
		n.SetVersion(9)
	}
	return v
}

func mkVal0(kind int, label string) statecache.Value {
	sv := func() *util.SecureSerializableValue { return &util.SecureSerializableValue{Buffer: []byte(label)} }
	switch kind {
	case 0:
		return statecache.String(label)
	case 1:
		return &MutVal{B: []byte(label)}
	case 2:
		return util.NewLeafNode(util.Path("0a"+label), util.Path("1b"), 1, sv())
	case 3:
		fn := util.NewFullNode(sv())
		fn.PutChild('3', key32(label))
		fn.PutChild('c', key32("x"+label))
		return fn
	case 4:
		return util.NewExtensionNode(util.Path("ab"+label), key32(label))
	case 5:
		vn := util.NewValueNode()
		vn.SetValue(sv())
		return vn
	}
	panic("kind")
}

func render(v statecache.Value) string {
	switch x := v.(type) {
	case statecache.String:
		return string(x)
	case interface{ Encode() []byte }:
		return fmt.Sprintf("%x", x.Encode())
	}
	return fmt.Sprint(v)
}

func flip(b []byte) {
	if len(b) > 0 {
		b[0] ^= 0xff
	}
}

// mutate changes the object in place, the way a caller that owns it may.
func mutate(v statecache.Value) {
	buf := func(s util.MPTSerializable) {
		if sv, ok := s.(*util.SecureSerializableValue); ok && sv != nil {
			flip(sv.Buffer)
		}
	}
	switch x := v.(type) {
	case *MutVal:
		flip(x.B)
	case *util.LeafNode:
		flip(x.Path)
		flip(x.Prefix)
		if x.Value != nil {
			buf(x.Value.Value)
		}
	case *util.FullNode:
		for _, c := range x.Children {
			flip(c)
		}
		if x.Value != nil {
			buf(x.Value.Value)
		}
	case *util.ExtensionNode:
		flip(x.Path)
		flip(x.NodeKey)
	case *util.ValueNode:
		buf(x.Value)
	}
}

// ---------------------------------------------------------------- universe, model, events

type ent struct {
	val string
	del bool
}

type universe struct {
	name      string
	parents   []int // parent index per block, -1 = parent never exists (gap)
	keys      []string
	txns      int
	kinds     []int // value kind per block (cycled)
	depth     int
	directSet bool // BlockCache.Set called directly (not through a transaction cache)
	lateHash  bool // block caches are created under a provisional hash; SetBlockHash gives the real one right before Commit (block generators)
	freshTxn  bool // "a new transaction cache is opened for slot (b,t)" is an event: handles created AFTER others have committed; the old handle of the slot is abandoned with whatever it had pending
	scRemove  bool // StateCache.Remove(key) is an event (drops the key's whole per-block map; only soundness can be demanded afterwards)
	// C07 switches
	mutateValues bool
	demandHits   bool
}

type event struct {
	K    byte // s set, r remove, c txn commit, S direct block set, C block commit, g sc.Get, b bc.Get, t tc.Get
	B, T int
	Key  string
}

// blockNames, when set by a universe (names), replaces the default block names b0, b1, ... : names of different
// lengths where one is a suffix of another, next to keys where one is a prefix of another, make "key+hash"
// ambiguous ("k"+"12" == "k1"+"2").
var suffixNames = []string{"2", "12", "112", "1112"}

// useSuffixNames is set around ONE universe run (universes run one after the other; the workers of a run share it).
var useSuffixNames bool

func bname(i int) string {
	if useSuffixNames {
		return suffixNames[i]
	}
	return fmt.Sprintf("b%d", i)
}

func (e event) String() string {
	switch e.K {
	case 's':
		return fmt.Sprintf("%s.txn%d.Set(%s)", bname(e.B), e.T, e.Key)
	case 'r':
		return fmt.Sprintf("%s.txn%d.Remove(%s)", bname(e.B), e.T, e.Key)
	case 'c':
		return fmt.Sprintf("%s.txn%d.Commit", bname(e.B), e.T)
	case 'S':
		return fmt.Sprintf("%s.BlockCache.Set(%s)", bname(e.B), e.Key)
	case 'X':
		return fmt.Sprintf("StateCache.Remove(%s)", e.Key)
	case 'n':
		return fmt.Sprintf("%s.txn%d = NewTransactionCache", bname(e.B), e.T)
	case 'C':
		return fmt.Sprintf("%s.Commit", bname(e.B))
	case 'g':
		return fmt.Sprintf("StateCache.Get(%s,%s)", e.Key, bname(e.B))
	case 'b':
		return fmt.Sprintf("%s.BlockCache.Get(%s)", bname(e.B), e.Key)
	case 't':
		return fmt.Sprintf("%s.txn%d.Get(%s)", bname(e.B), e.T, e.Key)
	}
	return "?"
}

func (u universe) events() []event {
	var evs []event
	if u.scRemove {
		for _, k := range u.keys {
			evs = append(evs, event{K: 'X', Key: k})
		}
	}
	for b := range u.parents {
		for t := 0; t < u.txns; t++ {
			for _, k := range u.keys {
				evs = append(evs, event{K: 's', B: b, T: t, Key: k}, event{K: 'r', B: b, T: t, Key: k}, event{K: 't', B: b, T: t, Key: k})
			}
			evs = append(evs, event{K: 'c', B: b, T: t})
			if u.freshTxn {
				evs = append(evs, event{K: 'n', B: b, T: t})
			}
		}
		evs = append(evs, event{K: 'C', B: b})
		for _, k := range u.keys {
			evs = append(evs, event{K: 'g', B: b, Key: k}, event{K: 'b', B: b, Key: k})
			if u.directSet {
				evs = append(evs, event{K: 'S', B: b, Key: k})
			}
		}
	}
	return evs
}

type world struct {
	u         universe
	sc        *statecache.StateCache
	bcs       []*statecache.BlockCache
	tcs       [][]*statecache.TransactionCache
	committed []bool
	forgot    bool // StateCache.Remove happened
	cw, pend  []map[string]ent
	ov        [][]map[string]ent
}

func newWorld(u universe) *world {
	w := &world{u: u, sc: statecache.NewStateCache()}
	n := len(u.parents)
	w.committed = make([]bool, n)
	for b := 0; b < n; b++ {
		prev := "gap-" + bname(b)
		if u.parents[b] >= 0 {
			prev = bname(u.parents[b])
		}
		hash := bname(b)
		if u.lateHash {
			hash = "pending-" + bname(b)
		}
		bc := statecache.NewBlockCache(w.sc, statecache.Block{Round: int64(b), Hash: hash, PrevHash: prev})
		w.bcs = append(w.bcs, bc)
		w.cw = append(w.cw, map[string]ent{})
		w.pend = append(w.pend, map[string]ent{})
		var tcs []*statecache.TransactionCache
		var ovs []map[string]ent
		for t := 0; t < u.txns; t++ {
			tcs = append(tcs, statecache.NewTransactionCache(bc))
			ovs = append(ovs, map[string]ent{})
		}
		w.tcs = append(w.tcs, tcs)
		w.ov = append(w.ov, ovs)
	}
	return w
}

const mustMiss = "\x00MUSTMISS"

func (w *world) truthSC(k string, b int) string {
	for x := b; x >= 0; x = w.u.parents[x] {
		if !w.committed[x] {
			return mustMiss
		}
		if e, ok := w.cw[x][k]; ok {
			if e.del {
				return mustMiss
			}
			return e.val
		}
	}
	return mustMiss
}

func (w *world) truthBC(k string, b int) string {
	if e, ok := w.pend[b][k]; ok {
		if e.del {
			return mustMiss
		}
		return e.val
	}
	if w.u.parents[b] < 0 {
		return mustMiss
	}
	return w.truthSC(k, w.u.parents[b])
}

func (w *world) truthTC(k string, b, t int) string {
	if e, ok := w.ov[b][t][k]; ok {
		if e.del {
			return mustMiss
		}
		return e.val
	}
	return w.truthBC(k, b)
}

func (w *world) judgeGet(what string, v statecache.Value, ok bool, truth string) string {
	if !ok {
		if w.u.demandHits && truth != mustMiss {
			return fmt.Sprintf("%s missed; %s was committed on this chain, nothing can have been evicted", what, showTruth(truth))
		}
		return ""
	}
	got := render(v)
	if truth == mustMiss {
		return fmt.Sprintf("%s returned %s; the key is not written (or is removed, or an ancestor is uncommitted) on this chain: it must miss", what, got)
	}
	if got != truth {
		return fmt.Sprintf("%s returned %s; the value most recently written on this chain is %s", what, got, showTruth(truth))
	}
	if w.u.mutateValues {
		mutate(v) // the caller owns what it was handed
	}
	return ""
}

func showTruth(t string) string {
	if t == mustMiss {
		return "<must miss>"
	}
	return t
}

func (w *world) label(b, t int) string { return fmt.Sprintf("%s.%d", bname(b), t) }

func (w *world) apply(e event) (fail string) {
	defer func() {
		if r := recover(); r != nil {
			fail = fmt.Sprintf("panic: %v", r)
		}
	}()
	switch e.K {
	case 's':
		v := mkVal(w.u.kinds[e.B%len(w.u.kinds)], w.label(e.B, e.T))
		snap := render(v)
		w.tcs[e.B][e.T].Set(e.Key, v)
		if w.u.mutateValues {
			mutate(v) // the caller keeps using its own object
		}
		w.ov[e.B][e.T][e.Key] = ent{val: snap}
	case 'r':
		w.tcs[e.B][e.T].Remove(e.Key)
		w.ov[e.B][e.T][e.Key] = ent{del: true}
	case 'S':
		v := mkVal(w.u.kinds[e.B%len(w.u.kinds)], bname(e.B)+".direct")
		snap := render(v)
		w.bcs[e.B].Set(e.Key, v)
		if w.u.mutateValues {
			mutate(v)
		}
		w.pend[e.B][e.Key] = ent{val: snap}
	case 'c':
		w.tcs[e.B][e.T].Commit()
		for k, v := range w.ov[e.B][e.T] {
			w.pend[e.B][k] = v
		}
		w.ov[e.B][e.T] = map[string]ent{}
	case 'n':
		w.tcs[e.B][e.T] = statecache.NewTransactionCache(w.bcs[e.B])
		w.ov[e.B][e.T] = map[string]ent{}
	case 'X':
		w.sc.Remove(e.Key)
		for b := range w.cw {
			if w.committed[b] {
				delete(w.cw[b], e.Key)
				w.forgot = true // committed knowledge is gone: chains through these blocks may now legitimately skip them
			}
		}
	case 'C':
		if w.u.lateHash {
			w.bcs[e.B].SetBlockHash(bname(e.B))
		}
		w.bcs[e.B].Commit()
		w.committed[e.B] = true
		w.cw[e.B] = w.pend[e.B]
		w.pend[e.B] = map[string]ent{}
	case 'g':
		truth := w.truthSC(e.Key, e.B)
		v, ok := statecache.NewQueryBlockCache(w.sc, bname(e.B)).Get(e.Key)
		if f := w.judgeGet(e.String()+" (via QueryBlockCache)", v, ok, truth); f != "" {
			return f
		}
		v, ok = w.sc.Get(e.Key, bname(e.B))
		return w.judgeGet(e.String(), v, ok, truth)
	case 'b':
		v, ok := w.bcs[e.B].Get(e.Key)
		return w.judgeGet(e.String(), v, ok, w.truthBC(e.Key, e.B))
	case 't':
		v, ok := w.tcs[e.B][e.T].Get(e.Key)
		return w.judgeGet(e.String(), v, ok, w.truthTC(e.Key, e.B, e.T))
	}
	return ""
}

// observeAll performs every lookup of the universe once (on a world that is thrown away).
func (w *world) observeAll() string {
	for b := range w.u.parents {
		for _, k := range w.u.keys {
			for t := range w.tcs[b] {
				if f := w.apply(event{K: 't', B: b, T: t, Key: k}); f != "" {
					return f
				}
			}
			if f := w.apply(event{K: 'b', B: b, Key: k}); f != "" {
				return f
			}
			if f := w.apply(event{K: 'g', B: b, Key: k}); f != "" {
				return f
			}
		}
	}
	return ""
}

func mapKey(m map[string]ent) string {
	var es []string
	for k, v := range m {
		es = append(es, fmt.Sprintf("%s=%s/%v", k, v.val, v.del))
	}
	sort.Strings(es)
	return strings.Join(es, ",")
}

// key renders model + dumped implementation state; ok=false if a capacity was approached.
func (w *world) key() (string, string) {
	var sb strings.Builder
	for b := range w.u.parents {
		fmt.Fprintf(&sb, "[%v|%s|%s", w.committed[b], mapKey(w.cw[b]), mapKey(w.pend[b]))
		for t := range w.ov[b] {
			sb.WriteString("|" + mapKey(w.ov[b][t]))
		}
		sb.WriteString("]")
	}
	if !haveDump {
		return "", ""
	}
	d, maxPerKey, links := dumpSC(w.sc)
	if maxPerKey >= 150 || links >= 1500 {
		return "", fmt.Sprintf("harness universe approached a cache capacity (%d entries per key, %d links)", maxPerKey, links)
	}
	sb.WriteString("#" + d)
	for b := range w.bcs {
		sb.WriteString("#" + dumpBC(w.bcs[b]))
		for _, tc := range w.tcs[b] {
			sb.WriteString("~" + dumpTC(tc))
		}
	}
	return sb.String(), ""
}
