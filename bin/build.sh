#!/bin/bash
# bin/build.sh <mccheck|mcsched|mcrace> : (re)build one harness binary against /repo's working tree
set -u
here="$(cd "$(dirname "$0")" && pwd)"
. "$here/env.sh"
mkdir -p "$VERIF_ROOT/.build"
cd "$VERIF_ROOT/mc" || exit 2
# development only: VERIF_ALT_REPO=<scratch copy of /repo> builds against that copy (seeded changes are tried
# there while /repo itself is in use by a long run); the registered checks never set it
MODFILE=""; SCHEDMOD="-modfile=go.sched.mod"
if [ -n "${VERIF_ALT_REPO:-}" ]; then
  alt="$VERIF_ROOT/.build/alt${VERIF_BIN_SUFFIX:-}"; mkdir -p "$alt"
  for m in go.mod go.sched.mod; do
    sed -e "s#=> /repo\$#=> $VERIF_ALT_REPO#" -e "s#=> \.\./third_party#=> $VERIF_ROOT/third_party#" "$m" > "$alt/$m"
  done
  cp go.sum "$alt/go.sum"; cp go.sum "$alt/go.sched.sum" 2>/dev/null
  [ -f go.sched.sum ] && cp go.sched.sum "$alt/go.sched.sum"
  MODFILE="-modfile=$alt/go.mod"; SCHEDMOD="-modfile=$alt/go.sched.mod"
fi
case "$1" in
  mccheck)
    ov=$(go run $MODFILE ./cmd/mkoverlay plain "$VERIF_ROOT/.build/ov-plain") || exit 2
    if ! go build $MODFILE -overlay "$ov" -o "$VERIF_ROOT/.build/mccheck${VERIF_BIN_SUFFIX:-}" ./cmd/mccheck 2>"$VERIF_ROOT/.build/mccheck.err"; then
      echo "note: build with private-state dump files failed, retrying with -tags nodump (no state merging for statecache/wmpt/logging checks)" >&2
      cat "$VERIF_ROOT/.build/mccheck.err" >&2
      go build $MODFILE -tags nodump -o "$VERIF_ROOT/.build/mccheck${VERIF_BIN_SUFFIX:-}" ./cmd/mccheck
    fi ;;
  mccheck.small)
    # the same binary with the size thresholds BatchSize (256) and maxPruneNodes (1000) set to 2 through the overlay
    ov=$(VERIF_SMALL=1 go run $MODFILE ./cmd/mkoverlay plain "$VERIF_ROOT/.build/ov-small") || exit 2
    go build $MODFILE -overlay "$ov" -o "$VERIF_ROOT/.build/mccheck${VERIF_BIN_SUFFIX:-}.small" ./cmd/mccheck ;;
  mcsched)
    ov=$(go run $MODFILE ./cmd/mkoverlay sched "$VERIF_ROOT/.build/ov-sched") || exit 2
    if ! go build $SCHEDMOD -overlay "$ov" -o "$VERIF_ROOT/.build/mcsched${VERIF_BIN_SUFFIX:-}" ./cmd/mcsched 2>"$VERIF_ROOT/.build/mcsched.err"; then
      echo "note: build with Touch points failed (an anchor's identifiers changed?), retrying without Touch points: data races are then left to the -race pass" >&2
      cat "$VERIF_ROOT/.build/mcsched.err" >&2
      ov=$(VERIF_NOTOUCH=1 go run $MODFILE ./cmd/mkoverlay sched "$VERIF_ROOT/.build/ov-sched") || exit 2
      go build $SCHEDMOD -overlay "$ov" -o "$VERIF_ROOT/.build/mcsched${VERIF_BIN_SUFFIX:-}" ./cmd/mcsched
    fi ;;
  mcsched.buf4)
    # the same binary with logging.BufferSize = 4 (one constant changed through the overlay)
    ov=$(VERIF_BUF4=1 go run $MODFILE ./cmd/mkoverlay sched "$VERIF_ROOT/.build/ov-buf4") || exit 2
    go build $SCHEDMOD -overlay "$ov" -o "$VERIF_ROOT/.build/mcsched${VERIF_BIN_SUFFIX:-}.buf4" ./cmd/mcsched ;;
  mcrace)
    ov=$(go run $MODFILE ./cmd/mkoverlay plain "$VERIF_ROOT/.build/ov-race") || exit 2
    CGO_ENABLED=1 go build $MODFILE -race -overlay "$ov" -o "$VERIF_ROOT/.build/mcrace${VERIF_BIN_SUFFIX:-}" ./cmd/mcrace ;;
  *) echo "unknown binary $1" >&2; exit 2 ;;
esac
