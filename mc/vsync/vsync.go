// Package vsync is a drop-in for the parts of package sync that the code under test
// uses, with Mutex and RWMutex modelled on top of a cooperative scheduler.
//
// It is compiled into the packages under test by rewriting their import of "sync"
// (go build -overlay, see cmd/mkoverlay). Exactly one logical thread runs at any
// time; every Lock/RLock (and every explicit Point) is a scheduling point. With no
// scheduler attached (set-up and post phases of a scenario) the mutexes are plain
// flag machines without points.
package vsync

import (
	"fmt"
	"sync"
)

// Aliases so that any other use of package sync in the rewritten files still compiles.
type (
	WaitGroup = sync.WaitGroup
	Once      = sync.Once
	Pool      = sync.Pool
	Map       = sync.Map
	Cond      = sync.Cond
	Locker    = sync.Locker
)

func NewCond(l Locker) *Cond   { return sync.NewCond(l) }
func OnceFunc(f func()) func() { return sync.OnceFunc(f) }

// ---------------------------------------------------------------- scheduler

type thread struct {
	id      int
	wake    chan struct{}
	done    bool
	blocked any // the mutex it waits for; nil if enabled
}

// Point is one scheduling decision with more than one enabled thread.
type Point struct {
	Enabled    []int // canonical order: the running thread first if still enabled, then ascending ids
	CurEnabled bool  // the running thread could have continued (choosing another one is a preemption)
	Chosen     int   // index into Enabled
	At         string
}

type Sched struct {
	threads  []*thread
	cur      int
	prefix   []int
	Points   []Point
	fin      chan struct{}
	Err      string // "deadlock", "panic: ...", "replay divergence ..."
	active   bool
	Steps    int
	MaxSteps int
	touches  map[int]touch // pending Touch per thread parked at a Touch point
	Races    []string
	// Chooser, if set, replaces the prefix/default choice: it gets the enabled thread ids in canonical
	// order and returns the index to run (conformance replay of model traces); it is consulted at EVERY
	// decision, also when a single thread is enabled, so that the caller sees every step boundary.
	Chooser    func(enabled []int) int
	inspecting bool
}

type touch struct {
	addr  any
	write bool
	what  string
}

var cur *Sched

// Active reports whether a scheduler is attached (and not suspended for an inspection).
func Active() bool { return cur != nil && cur.active && !cur.inspecting }

// Inspect runs f with scheduling suspended: locks taken inside f (state dumps through the LRU's own
// accessors) are plain flag operations. Only safe while every other thread is parked at a scheduling
// point outside the critical sections f enters, which holds for the LRU locks: no LRU operation
// contains a scheduling point.
func Inspect(f func()) {
	if cur == nil {
		f()
		return
	}
	was := cur.inspecting
	cur.inspecting = true
	defer func() { cur.inspecting = was }()
	f()
}

func (s *Sched) enabled(curOK bool) []int {
	var e []int
	if curOK && s.cur >= 0 && !s.threads[s.cur].done && s.threads[s.cur].blocked == nil {
		e = append(e, s.cur)
	}
	for _, t := range s.threads {
		if t.id == s.cur && curOK {
			continue
		}
		if !t.done && t.blocked == nil {
			e = append(e, t.id)
		}
	}
	return e
}

// decide picks the next thread to run. curRunnable: the caller may continue.
func (s *Sched) decide(curRunnable bool, at string) int {
	en := s.enabled(curRunnable)
	if len(en) == 0 {
		return -1
	}
	if s.Chooser != nil {
		ch := s.Chooser(en)
		if ch < 0 || ch >= len(en) {
			s.Err = "chooser: the requested thread is not enabled"
			ch = 0
		}
		s.Points = append(s.Points, Point{Enabled: en, CurEnabled: curRunnable, Chosen: ch, At: at})
		return en[ch]
	}
	if len(en) == 1 {
		return en[0]
	}
	i := len(s.Points)
	ch := 0
	if i < len(s.prefix) {
		ch = s.prefix[i]
		if ch >= len(en) {
			s.Err = fmt.Sprintf("replay divergence at point %d: choice %d of %d enabled", i, ch, len(en))
			ch = 0
		}
	}
	s.Points = append(s.Points, Point{Enabled: en, CurEnabled: curRunnable, Chosen: ch, At: at})
	return en[ch]
}

func (s *Sched) switchTo(next int) {
	me := s.cur
	if next == me {
		return
	}
	s.cur = next
	s.threads[next].wake <- struct{}{}
	<-s.threads[me].wake
}

func (s *Sched) finish(err string) {
	if err != "" && s.Err == "" {
		s.Err = err
	}
	s.active = false
	close(s.fin)
}

// Yield is a scheduling point of the running thread.
func Yield(at string) {
	s := cur
	if s == nil || !s.active {
		return
	}
	s.Steps++
	if s.MaxSteps > 0 && s.Steps > s.MaxSteps {
		s.finish("horizon exceeded (livelock?)")
		select {}
	}
	n := s.decide(true, at)
	s.switchTo(n)
}

// PointHere is an explicit scheduling point for harness code.
func PointHere() { Yield("point") }

func block(on any, at string) {
	s := cur
	me := s.cur
	s.threads[me].blocked = on
	n := s.decide(false, at)
	if n < 0 {
		s.finish("deadlock: every unfinished thread is blocked")
		select {} // park forever; the explorer reports and stops
	}
	s.switchTo(n)
}

func unblockAll(on any) {
	s := cur
	if s == nil {
		return
	}
	for _, t := range s.threads {
		if t.blocked == on {
			t.blocked = nil
		}
	}
}

// Run executes the bodies as logical threads under the schedule prefix (choice 0,
// "keep running", at every later point).
func Run(prefix []int, maxSteps int, bodies []func()) *Sched {
	return RunWith(prefix, maxSteps, nil, bodies)
}

// RunWith is Run with an optional chooser (see Sched.Chooser).
func RunWith(prefix []int, maxSteps int, chooser func(enabled []int) int, bodies []func()) *Sched {
	s := &Sched{prefix: prefix, fin: make(chan struct{}), MaxSteps: maxSteps, touches: map[int]touch{}, Chooser: chooser}
	for i := range bodies {
		s.threads = append(s.threads, &thread{id: i, wake: make(chan struct{})})
	}
	cur = s
	for i, b := range bodies {
		t, b := s.threads[i], b
		go func() {
			<-t.wake
			defer func() {
				if r := recover(); r != nil {
					if s.active {
						s.finish(fmt.Sprintf("panic in thread %d: %v", t.id, r))
					}
					return
				}
			}()
			b()
			if !s.active {
				return
			}
			t.done = true
			n := s.decide(false, "exit")
			if n < 0 {
				for _, x := range s.threads {
					if !x.done {
						s.finish("deadlock: every unfinished thread is blocked")
						return
					}
				}
				s.finish("")
				return
			}
			s.cur = n
			s.threads[n].wake <- struct{}{}
		}()
	}
	s.active = true
	s.cur = -1
	first := s.decide(false, "start")
	s.cur = first
	s.threads[first].wake <- struct{}{}
	<-s.fin
	cur = nil
	return s
}

// Choices returns the recorded choice list.
func (s *Sched) Choices() []int {
	c := make([]int, len(s.Points))
	for i, p := range s.Points {
		c[i] = p.Chosen
	}
	return c
}

// ---------------------------------------------------------------- primitives

type Mutex struct {
	locked bool
}

func (m *Mutex) Lock() {
	if !Active() {
		if m.locked {
			panic("vsync: Mutex.Lock would block outside the scheduler")
		}
		m.locked = true
		return
	}
	Yield("Mutex.Lock")
	for m.locked {
		block(m, "Mutex.Lock(wait)")
	}
	m.locked = true
}

func (m *Mutex) TryLock() bool {
	if Active() {
		Yield("Mutex.TryLock")
	}
	if m.locked {
		return false
	}
	m.locked = true
	return true
}

func (m *Mutex) Unlock() {
	if !m.locked {
		panic("vsync: unlock of unlocked Mutex")
	}
	m.locked = false
	unblockAll(m)
}

// RWMutex models Go's writer preference: a waiting writer blocks new readers.
type RWMutex struct {
	w     bool
	r     int
	wwait int
}

func (m *RWMutex) Lock() {
	if !Active() {
		if m.w || m.r > 0 {
			panic("vsync: RWMutex.Lock would block outside the scheduler")
		}
		m.w = true
		return
	}
	Yield("RWMutex.Lock")
	for m.w || m.r > 0 {
		m.wwait++
		block(m, "RWMutex.Lock(wait)")
		m.wwait--
	}
	m.w = true
}

func (m *RWMutex) TryLock() bool {
	if Active() {
		Yield("RWMutex.TryLock")
	}
	if m.w || m.r > 0 {
		return false
	}
	m.w = true
	return true
}

func (m *RWMutex) Unlock() {
	if !m.w {
		panic("vsync: unlock of unlocked RWMutex")
	}
	m.w = false
	unblockAll(m)
}

func (m *RWMutex) RLock() {
	if !Active() {
		if m.w {
			panic("vsync: RWMutex.RLock would block outside the scheduler")
		}
		m.r++
		return
	}
	Yield("RWMutex.RLock")
	for m.w || m.wwait > 0 {
		block(m, "RWMutex.RLock(wait)")
	}
	m.r++
}

func (m *RWMutex) TryRLock() bool {
	if Active() {
		Yield("RWMutex.TryRLock")
	}
	if m.w || m.wwait > 0 {
		return false
	}
	m.r++
	return true
}

func (m *RWMutex) RUnlock() {
	if m.r <= 0 {
		panic("vsync: RUnlock of unlocked RWMutex")
	}
	m.r--
	if m.r == 0 {
		unblockAll(m)
	}
}

func (m *RWMutex) RLocker() Locker { return (*rlocker)(m) }

type rlocker RWMutex

func (r *rlocker) Lock()   { (*RWMutex)(r).RLock() }
func (r *rlocker) Unlock() { (*RWMutex)(r).RUnlock() }

// ---------------------------------------------------------------- Touch (unsynchronised shared fields)

// Touch marks an access to unsynchronised shared memory. It is a scheduling point;
// if, at a decision, two enabled threads are parked at Touch points on the same
// address and at least one is a write, that is a data race reachable by the
// schedule explored so far.
func Touch(addr any, write bool, what string) {
	s := cur
	if s == nil || !s.active {
		return
	}
	me := s.cur
	s.touches[me] = touch{addr, write, what}
	for id, t := range s.touches {
		if id == me || s.threads[id].done || s.threads[id].blocked != nil {
			continue
		}
		if t.addr == addr && (t.write || write) {
			s.Races = append(s.Races, fmt.Sprintf("data race on %s: thread %d (%s write=%v) and thread %d (%s write=%v)", what, id, t.what, t.write, me, what, write))
		}
	}
	Yield("Touch " + what)
	delete(s.touches, me)
}
