package rt

import (
	"encoding/binary"
	"encoding/json"
	"fmt"
	"os"
	"runtime"
	"strconv"
	"strings"
	"sync/atomic"
	"syscall"
	"time"
)

// ---- in-flight record ("slots") and the resource watchdog.
//
// A change to the code under test can make one history kill the whole process: unbounded recursion
// (fatal "stack overflow"), unbounded allocation (the kernel's OOM killer), a fatal "concurrent map
// writes", a hang. None of these can be recovered inside the process, and none tells which history
// did it. Every explorer worker therefore notes the history it is about to run in a slot of a small
// memory-mapped file; the supervisor (cmd/mccheck) reads the slots after an abnormal death and
// replays the few candidates, each in a process of its own, to name the culprit.

const (
	slotSize = 1024
	nSlots   = 128
)

var slotMem []byte

// SlotRec is one in-flight history read back from the slot file.
type SlotRec struct {
	Run   string
	Ops   []byte
	Since time.Time
}

// OpenSlots maps the slot file named by VERIF_SLOTS (set by the supervisor) and starts the watchdog.
func OpenSlots() {
	p := os.Getenv("VERIF_SLOTS")
	if p == "" {
		return
	}
	f, err := os.OpenFile(p, os.O_RDWR, 0o644)
	if err != nil {
		return
	}
	defer f.Close()
	m, err := syscall.Mmap(int(f.Fd()), 0, slotSize*nSlots, syscall.PROT_READ|syscall.PROT_WRITE, syscall.MAP_SHARED)
	if err != nil {
		return
	}
	slotMem = m
	go watchdog()
}

var slotCounter int64

// NewSlot hands out a slot index to a worker goroutine.
func NewSlot() int { return int(atomic.AddInt64(&slotCounter, 1)-1) % nSlots }

// SlotSet notes that the worker owning slot i is about to run history ops of sub-run run.
func SlotSet(i int, run string, ops []byte) {
	if slotMem == nil {
		return
	}
	b := slotMem[i*slotSize : (i+1)*slotSize]
	if len(run) > 200 {
		run = run[:200]
	}
	if 8+2+len(run)+2+len(ops) > slotSize {
		ops = ops[:slotSize-12-len(run)]
	}
	binary.LittleEndian.PutUint64(b[0:8], 0) // invalid while being written
	binary.LittleEndian.PutUint16(b[8:10], uint16(len(run)))
	copy(b[10:], run)
	o := 10 + len(run)
	binary.LittleEndian.PutUint16(b[o:o+2], uint16(len(ops)))
	copy(b[o+2:], ops)
	binary.LittleEndian.PutUint64(b[0:8], uint64(time.Now().UnixNano()))
}

// JSONRun marks a slot whose payload is the JSON of a replay map (enumerations that are not histories of one alphabet).
const JSONRun = "@json"

// SlotSetJSON notes the case (its replay map) the worker is about to run.
func SlotSetJSON(i int, replay any) {
	if slotMem == nil {
		return
	}
	b, err := json.Marshal(replay)
	if err != nil || len(b) > slotSize-32 {
		return
	}
	SlotSet(i, JSONRun, b)
}

// SlotClear notes that the worker is idle.
func SlotClear(i int) {
	if slotMem == nil {
		return
	}
	binary.LittleEndian.PutUint64(slotMem[i*slotSize:i*slotSize+8], 0)
}

func parseSlots(m []byte) []SlotRec {
	var out []SlotRec
	for i := 0; i+slotSize <= len(m); i += slotSize {
		b := m[i : i+slotSize]
		ts := binary.LittleEndian.Uint64(b[0:8])
		if ts == 0 {
			continue
		}
		rl := int(binary.LittleEndian.Uint16(b[8:10]))
		if 10+rl+2 > slotSize {
			continue
		}
		ol := int(binary.LittleEndian.Uint16(b[10+rl : 12+rl]))
		if 12+rl+ol > slotSize {
			continue
		}
		out = append(out, SlotRec{Run: string(b[10 : 10+rl]), Ops: append([]byte(nil), b[12+rl:12+rl+ol]...), Since: time.Unix(0, int64(ts))})
	}
	return out
}

// ReadSlots returns the in-flight histories recorded in a slot file.
func ReadSlots(path string) []SlotRec {
	b, err := os.ReadFile(path)
	if err != nil {
		return nil
	}
	return parseSlots(b)
}

// CreateSlotFile makes an empty slot file.
func CreateSlotFile(path string) error {
	return os.WriteFile(path, make([]byte, slotSize*nSlots), 0o644)
}

// Exit codes of the watchdog (anything but 0 and 1 is an abnormal death for the supervisor).
const (
	ExitMemory = 3
	ExitHang   = 4
)

func rssBytes() int64 {
	b, err := os.ReadFile("/proc/self/statm")
	if err != nil {
		return 0
	}
	f := strings.Fields(string(b))
	if len(f) < 2 {
		return 0
	}
	pages, _ := strconv.ParseInt(f[1], 10, 64)
	return pages * int64(os.Getpagesize())
}

func memLimit() int64 {
	if v, err := strconv.ParseInt(os.Getenv("VERIF_MEM_LIMIT_GB"), 10, 64); err == nil && v > 0 {
		return v << 30
	}
	// a third of the machine, at least 8 GB: the checks themselves stay below 4 GB
	lim := int64(8) << 30
	if b, err := os.ReadFile("/proc/meminfo"); err == nil {
		for _, l := range strings.Split(string(b), "\n") {
			if strings.HasPrefix(l, "MemTotal:") {
				f := strings.Fields(l)
				if len(f) >= 2 {
					if kb, err := strconv.ParseInt(f[1], 10, 64); err == nil && kb*1024/3 > lim {
						lim = kb * 1024 / 3
					}
				}
			}
		}
	}
	return lim
}

func hangLimit() time.Duration {
	if v, err := strconv.Atoi(os.Getenv("VERIF_HANG_LIMIT_S")); err == nil && v > 0 {
		return time.Duration(v) * time.Second
	}
	return 300 * time.Second // single histories take micro- to milliseconds
}

func watchdog() {
	lim, hang := memLimit(), hangLimit()
	for {
		time.Sleep(100 * time.Millisecond)
		if rss := rssBytes(); rss > lim {
			fmt.Fprintf(os.Stderr, "WATCHDOG: resident memory %d MB exceeds the limit of %d MB (goroutines %d); in flight:\n", rss>>20, lim>>20, runtime.NumGoroutine())
			for _, s := range parseSlots(slotMem) {
				fmt.Fprintf(os.Stderr, "WATCHDOG:   %s %v (running for %.1fs)\n", s.Run, s.Ops, time.Since(s.Since).Seconds())
			}
			os.Exit(ExitMemory)
		}
		for _, s := range parseSlots(slotMem) {
			if time.Since(s.Since) > hang {
				fmt.Fprintf(os.Stderr, "WATCHDOG: history %s %v has been running for %.0fs (limit %.0fs)\n", s.Run, s.Ops, time.Since(s.Since).Seconds(), hang.Seconds())
				os.Exit(ExitHang)
			}
		}
	}
}
