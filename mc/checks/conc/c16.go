package conc

import (
	"context"
	"fmt"
	"sort"
	"strings"
	"sync"

	"github.com/0chain/common/core/statecache"
	"github.com/0chain/common/core/util"

	"verifmc/explore/sched"
)

// ---- C16: concurrent use of one state trie is linearizable

type mop struct {
	K    byte // I insert, D delete, G get, T iterate, C change count, S save changes, H has-missing/all-missing
	P, V string
}

func (o mop) String() string {
	switch o.K {
	case 'I':
		return fmt.Sprintf("Insert(%s,%s)", o.P, o.V)
	case 'D':
		return fmt.Sprintf("Delete(%s)", o.P)
	case 'G':
		return fmt.Sprintf("Get(%s)", o.P)
	case 'T':
		return "Iterate"
	case 'C':
		return "GetChangeCount"
	case 'S':
		return "SaveChanges"
	case 'B':
		return "MergeDB(donor holding the initial state, initial root)"
	case 'F':
		return "SaveChanges(store that rejects the write)"
	case 'Z':
		return "SaveChanges(cancelled context)"
	case 'H':
		return "GetAllMissingNodes"
	case 'L':
		return "GetDeletes"
	case 'X':
		return "GetChanges"
	case 'M':
		return fmt.Sprintf("MergeMPTChanges(child %s)", o.P)
	}
	return "?"
}

type c16 struct {
	name, doc string
	layered   bool
	pre       [][2]string // initial content
	dropNode  string      // path whose leaf node is deleted from the store before the threads start ("" = none)
	syncDead  []int       // before the threads start: one MergeDB per entry, each handing over that many dead nodes (a sync), after one local delete
	warm      bool        // the trie reads through a transaction cache whose block/state cache holds the nodes (committed by the previous block)
	scripts   [][]mop
}

type mworld struct {
	donor util.NodeDB // every node of the initial state (MergeDB scenarios)
	root0 util.Key
	kids  map[string]*util.MerklePatriciaTrie // children opened before the threads start (merge scenarios)
	t     *util.MerklePatriciaTrie
	db    util.NodeDB
	save  util.NodeDB
	// results of GetChanges that their callers keep: summarised when they were handed out and again at the end
	heldMu sync.Mutex
	held   []heldChanges
}

type heldChanges struct {
	changes []*util.NodeChange
	deletes []util.Node
	summary string
}

func summariseChanges(changes []*util.NodeChange, deletes []util.Node) string {
	var cs, ds []string
	for _, c := range changes {
		cs = append(cs, c.New.GetHash()[:8])
	}
	for _, d := range deletes {
		ds = append(ds, d.GetHash()[:8])
	}
	sort.Strings(cs)
	sort.Strings(ds)
	return fmt.Sprintf("changes=%v deletes=%v", cs, ds)
}

func (c c16) build() *mworld {
	w := &mworld{save: util.NewMemoryNodeDB()}
	if c.warm {
		// block b1 builds the content and commits its node cache; the trie under test belongs to block b2 on b1
		sc := statecache.NewStateCache()
		bc1, tc1 := statecache.NewBlockTxnCaches(sc, statecache.Block{Hash: "b1"})
		w.db = util.NewMemoryNodeDB()
		t0 := util.NewMerklePatriciaTrie(w.db, 1, nil, tc1)
		for _, kv := range c.pre {
			_, _ = t0.Insert(util.Path(kv[0]), &util.SecureSerializableValue{Buffer: []byte(kv[1])})
		}
		tc1.Commit()
		bc1.Commit()
		_, tc2 := statecache.NewBlockTxnCaches(sc, statecache.Block{Hash: "b2", PrevHash: "b1"})
		w.t = util.NewMerklePatriciaTrie(w.db, 1, t0.GetRoot(), tc2)
		return w
	}
	if c.layered {
		base := util.NewMemoryNodeDB()
		t0 := util.NewMerklePatriciaTrie(util.NewLevelNodeDB(util.NewMemoryNodeDB(), base, false), 1, nil, statecache.NewEmpty())
		for _, kv := range c.pre {
			_, _ = t0.Insert(util.Path(kv[0]), &util.SecureSerializableValue{Buffer: []byte(kv[1])})
		}
		_ = t0.SaveChanges(context.Background(), base, false)
		w.db = util.NewLevelNodeDB(util.NewMemoryNodeDB(), base, false)
		w.t = util.NewMerklePatriciaTrie(w.db, 2, t0.GetRoot(), statecache.NewEmpty())
		if c.dropNode != "" {
			dropLeaf(base, t0, c.dropNode)
		}
	} else {
		w.db = util.NewMemoryNodeDB()
		t0 := util.NewMerklePatriciaTrie(w.db, 1, nil, statecache.NewEmpty())
		for _, kv := range c.pre {
			_, _ = t0.Insert(util.Path(kv[0]), &util.SecureSerializableValue{Buffer: []byte(kv[1])})
		}
		// a fresh trie object: empty node cache, as after a restart
		w.t = util.NewMerklePatriciaTrie(w.db, 1, t0.GetRoot(), statecache.NewEmpty())
		if c.dropNode != "" {
			dropLeaf(w.db, t0, c.dropNode)
		}
	}
	if len(c.syncDead) > 0 {
		_, _ = w.t.Delete(util.Path("1c00")) // a local delete: the collector's own delete set is not empty
		n := 0
		for _, cnt := range c.syncDead {
			var dead []util.Node
			for i := 0; i < cnt; i++ {
				n++
				dead = append(dead, util.NewLeafNode(util.Path("dd"), util.Path(fmt.Sprintf("%04x", n)), 1, &util.SecureSerializableValue{Buffer: []byte{byte(n)}}))
			}
			if err := w.t.MergeDB(util.NewMemoryNodeDB(), w.t.GetRoot(), dead); err != nil {
				panic(err)
			}
		}
	}
	for _, sc := range c.scripts {
		for _, o := range sc {
			if o.K == 'B' && w.donor == nil {
				d := util.NewMemoryNodeDB()
				w.root0 = append(util.Key{}, w.t.GetRoot()...)
				src := util.NewMerklePatriciaTrie(w.t.GetNodeDB(), w.t.GetVersion(), w.root0, statecache.NewEmpty())
				_ = src.Iterate(context.Background(), func(ctx context.Context, path util.Path, key util.Key, node util.Node) error {
					if node != nil {
						_ = d.PutNode(key, node.CloneNode())
					}
					return nil
				}, util.NodeTypeLeafNode|util.NodeTypeFullNode|util.NodeTypeExtensionNode)
				w.donor = d
			}
			if o.K == 'M' {
				if w.kids == nil {
					w.kids = map[string]*util.MerklePatriciaTrie{}
				}
				k := util.NewMerklePatriciaTrie(util.NewLevelNodeDB(util.NewMemoryNodeDB(), w.t.GetNodeDB(), false), w.t.GetVersion(), w.t.GetRoot(), statecache.NewEmpty())
				_, _ = k.Insert(util.Path(o.P), &util.SecureSerializableValue{Buffer: []byte(o.V)})
				w.kids[o.P] = k
			}
		}
	}
	return w
}

// dropLeaf removes from the store the leaf node that holds path p.
func dropLeaf(db util.NodeDB, t *util.MerklePatriciaTrie, p string) {
	var victim util.Key
	_ = t.Iterate(context.Background(), func(ctx context.Context, path util.Path, key util.Key, node util.Node) error {
		if ln, ok := node.(*util.LeafNode); ok && string(path)+string(ln.Path) == p {
			victim = append(util.Key{}, key...)
		}
		return nil
	}, util.NodeTypeLeafNode)
	if victim == nil {
		panic("dropLeaf: no leaf for " + p)
	}
	_ = db.DeleteNode(victim)
}

func (w *mworld) do(o mop) string {
	switch o.K {
	case 'I':
		_, err := w.t.Insert(util.Path(o.P), &util.SecureSerializableValue{Buffer: []byte(o.V)})
		return fmt.Sprint(err)
	case 'D':
		_, err := w.t.Delete(util.Path(o.P))
		return fmt.Sprint(err)
	case 'G':
		v, err := w.t.GetNodeValueRaw(util.Path(o.P))
		return fmt.Sprintf("%s/%v", v, err)
	case 'T':
		var es []string
		err := w.t.Iterate(context.Background(), func(ctx context.Context, path util.Path, key util.Key, node util.Node) error {
			if vn, ok := node.(*util.ValueNode); ok {
				es = append(es, string(path)+"="+string(vn.GetValueBytes()))
			}
			return nil
		}, util.NodeTypeValueNode)
		sort.Strings(es)
		return fmt.Sprintf("%v/%v", es, err)
	case 'C':
		return fmt.Sprint(w.t.GetChangeCount())
	case 'S':
		return fmt.Sprint(w.t.SaveChanges(context.Background(), w.save, false))
	case 'B':
		return fmt.Sprint(w.t.MergeDB(w.donor, w.root0, nil))
	case 'F':
		// the error path of a save: the target store rejects the batch
		return fmt.Sprint(w.t.SaveChanges(context.Background(), rejectingDB{util.NewMemoryNodeDB()}, false))
	case 'Z':
		ctx, cancel := context.WithCancel(context.Background())
		cancel()
		err := w.t.SaveChanges(ctx, util.NewMemoryNodeDB(), false)
		if err != nil && err != context.Canceled {
			return fmt.Sprint(err)
		}
		return "<nil> or context canceled" // the save may win the race with the cancellation
	case 'H':
		ks, err := w.t.GetAllMissingNodes()
		return fmt.Sprintf("%d/%v", len(ks), err)
	case 'M':
		// merge a child transaction trie that was opened (and filled) before the threads started
		if w.kids == nil {
			w.kids = map[string]*util.MerklePatriciaTrie{}
		}
		return fmt.Sprint(w.t.MergeMPTChanges(w.kids[o.P]))
	case 'L':
		// the delete set (local deletes plus dead nodes taken over by syncs); the caller keeps what it gets
		ds := w.t.GetDeletes()
		sum := summariseChanges(nil, ds)
		w.heldMu.Lock()
		w.held = append(w.held, heldChanges{nil, ds, sum})
		w.heldMu.Unlock()
		return sum
	case 'X':
		// root, change set, delete set and start root must belong to one instant
		root, changes, deletes, start := w.t.GetChanges()
		sum := summariseChanges(changes, deletes)
		w.heldMu.Lock()
		w.held = append(w.held, heldChanges{changes, deletes, sum})
		w.heldMu.Unlock()
		return fmt.Sprintf("root=%x %s start=%x", []byte(root)[:4], sum, start)
	}
	return "?"
}

func (w *mworld) final() string {
	var es []string
	err := w.t.Iterate(context.Background(), func(ctx context.Context, path util.Path, key util.Key, node util.Node) error {
		if vn, ok := node.(*util.ValueNode); ok {
			es = append(es, string(path)+"="+string(vn.GetValueBytes()))
		}
		return nil
	}, util.NodeTypeValueNode)
	sort.Strings(es)
	heldFail := ""
	for i, h := range w.held {
		if now := summariseChanges(h.changes, h.deletes); now != h.summary {
			heldFail += fmt.Sprintf(" RESULT-CHANGED-AFTER-RETURN: the change set returned by GetChanges call %d was {%s} when it was returned and is {%s} now", i, h.summary, now)
		}
	}
	return fmt.Sprintf("root=%x content=%v iterr=%v missing=%d%s", w.t.GetRoot(), es, err, len(w.t.GetMissingNodeKeys()), heldFail)
}

// rejectingDB is a save target whose batch write fails (a full or broken disk).
type rejectingDB struct{ *util.MemoryNodeDB }

var errRejected = fmt.Errorf("store rejects the write")

func (rejectingDB) MultiPutNode(keys []util.Key, nodes []util.Node) error { return errRejected }
func (rejectingDB) PutNode(key util.Key, node util.Node) error            { return errRejected }

type opRef struct{ th, i int }

func (c c16) scenario() sched.Scenario {
	// sequential semantics of every order (computed lazily, once per order)
	seqCache := map[string][2]string{} // order -> (results, final)
	runSeq := func(order []opRef) (string, string) {
		key := fmt.Sprint(order)
		if r, ok := seqCache[key]; ok {
			return r[0], r[1]
		}
		w := c.build()
		res := map[opRef]string{}
		for _, r := range order {
			res[r] = w.do(c.scripts[r.th][r.i])
		}
		out := [2]string{c.render(res), w.final()}
		seqCache[key] = out
		return out[0], out[1]
	}
	return sched.Scenario{Name: c.name, Doc: c.doc, Make: func() ([]func(), func() (string, string)) {
		w := c.build()
		clock := 0
		call, ret := map[opRef]int{}, map[opRef]int{}
		res := map[opRef]string{}
		var hmu sync.Mutex // harness bookkeeping only; never held across a library call
		var bodies []func()
		for th := range c.scripts {
			th := th
			bodies = append(bodies, func() {
				for i, o := range c.scripts[th] {
					r := opRef{th, i}
					hmu.Lock()
					clock++
					call[r] = clock
					hmu.Unlock()
					out := w.do(o)
					hmu.Lock()
					res[r] = out
					clock++
					ret[r] = clock
					hmu.Unlock()
				}
			})
		}
		judge := func() (string, string) {
			observed, fin := c.render(res), w.final()
			if i := strings.Index(fin, "RESULT-CHANGED-AFTER-RETURN"); i >= 0 {
				// judged directly: no order of the calls explains a result that changes after it was returned
				return observed + " | " + fin, "a result handed to its caller did not stay what it was: " + fin[i:] + "; observed results " + observed
			}
			// all orders consistent with program order and with real-time order (a returned before b was called)
			var all []opRef
			for th := range c.scripts {
				for i := range c.scripts[th] {
					all = append(all, opRef{th, i})
				}
			}
			ok := false
			var tried int
			var rec func(cur []opRef, used map[opRef]bool)
			rec = func(cur []opRef, used map[opRef]bool) {
				if ok {
					return
				}
				if len(cur) == len(all) {
					tried++
					r, f := runSeq(cur)
					if r == observed && f == fin {
						ok = true
					}
					return
				}
				for _, x := range all {
					if used[x] {
						continue
					}
					legal := true
					for _, y := range all {
						if !used[y] && y != x && ret[y] < call[x] {
							legal = false // y finished before x started, so y must come first
						}
					}
					if !legal {
						continue
					}
					used[x] = true
					rec(append(cur, x), used)
					used[x] = false
				}
			}
			rec(nil, map[opRef]bool{})
			if !ok {
				return observed + " | " + fin, fmt.Sprintf("not linearizable: observed results %s with final state %s match none of the %d sequential orders consistent with the call/return order", observed, fin, tried)
			}
			return observed + " | " + fin, ""
		}
		return bodies, judge
	}}
}

func (c c16) render(res map[opRef]string) string {
	var parts []string
	for th := range c.scripts {
		for i, o := range c.scripts[th] {
			parts = append(parts, fmt.Sprintf("T%d.%s=%s", th, o, res[opRef{th, i}]))
		}
	}
	return strings.Join(parts, " ")
}

var mptPre = [][2]string{{"0a1b", "p"}, {"0a1c", "q"}, {"0b22", "r"}, {"1c00", "s"}}

func C16Scenarios() []sched.Scenario {
	var out []sched.Scenario
	for _, layered := range []bool{false, true} {
		tag := "mem"
		if layered {
			tag = "layered"
		}
		cs := []c16{
			{name: "W||W-same-key", doc: "two writers of the same key", scripts: [][]mop{{{'I', "0a1b", "x"}}, {{'I', "0a1b", "y"}}}},
			{name: "W||W-restructuring", doc: "insert splitting a leaf || delete lifting its sibling", scripts: [][]mop{{{'I', "0a1d", "x"}, {'G', "0a1c", ""}}, {{'D', "0a1b", ""}, {'I', "0a2b", "z"}}}},
			{name: "W||R-same-key", doc: "writer and reader of one key, reader reads twice", scripts: [][]mop{{{'I', "0b22", "x"}, {'D', "0b22", ""}}, {{'G', "0b22", ""}, {'G', "0b22", ""}}}},
			{name: "W||Iterate", doc: "writer || full iteration", scripts: [][]mop{{{'I', "0a1d", "x"}, {'D', "1c00", ""}}, {{'T', "", ""}}}},
			{name: "R||R-missing-node", doc: "two readers running into the same node that is absent from the store", dropNode: "0b22", scripts: [][]mop{{{'G', "0b22", ""}}, {{'G', "0b22", ""}, {'H', "", ""}}}},
			{name: "Merge||Merge", doc: "two sibling transaction tries opened on the same root are merged concurrently: exactly one merge may succeed", scripts: [][]mop{{{'M', "0a1d", "x"}, {'G', "0a1d", ""}}, {{'M', "0a2b", "z"}, {'G', "0a2b", ""}}}},
			{name: "Iterate||Iterate", doc: "two full iterations at the same time (read-only users of one trie): each handler sees every path with its own value", scripts: [][]mop{{{'T', "", ""}}, {{'T', "", ""}, {'G', "1c00", ""}}}},
			{name: "W||GetChanges", doc: "writer || GetChanges (root, changes and deletes of one instant)", scripts: [][]mop{{{'I', "0a1d", "x"}, {'D', "0b22", ""}}, {{'X', "", ""}}}},
			{name: "W||GetChanges-kept", doc: "a writer rewriting keys (the change set does not grow) || a reader that keeps the sets GetChanges returned while it asks again: what was returned stays what it was", scripts: [][]mop{{{'I', "0a1b", "x"}, {'X', "", ""}, {'I', "0a1b", "y"}}, {{'X', "", ""}, {'X', "", ""}}}},
			{name: "GetDeletes||GetDeletes-after-syncs", doc: "two readers of the delete set of a trie that took dead nodes over in two syncs (5, then 3) and in one of 17; each keeps what it was given", syncDead: []int{5, 3}, scripts: [][]mop{{{'L', "", ""}, {'L', "", ""}}, {{'L', "", ""}, {'G', "0a1b", ""}}}},
			{name: "GetDeletes||GetDeletes-after-sync-of-17", doc: "the same after one sync handing over 17 dead nodes", syncDead: []int{17}, scripts: [][]mop{{{'L', "", ""}}, {{'L', "", ""}, {'L', "", ""}}}},
			{name: "W||change-count", doc: "writer || GetChangeCount", scripts: [][]mop{{{'I', "0a1d", "x"}, {'I', "0a1e", "y"}}, {{'C', "", ""}, {'C', "", ""}}}},
			{name: "W||Save||R", doc: "writer || SaveChanges || reader", scripts: [][]mop{{{'I', "0a1d", "x"}}, {{'S', "", ""}}, {{'G', "0a1d", ""}}}},
			// (saves that fail are exercised in the free-running pass only, see failingSaves in stress.go: the error path of
			// SaveChanges returns while its worker goroutine is still finishing, which cannot be replayed deterministically)
			// (a save with a cancelled context is not explored: its worker goroutine outlives the call, which the cooperative scheduler does not model)
			{name: "W||MergeDB", doc: "writer on a shared path || MergeDB of a donor holding the initial state (sync): the result is merge-then-insert or insert-then-merge, never a root with absent nodes", scripts: [][]mop{{{'I', "0a1d", "x"}, {'G', "0a1b", ""}}, {{'B', "", ""}}}},
			{name: "W||W||R", doc: "two writers on keys sharing a prefix || reader", scripts: [][]mop{{{'I', "0a1b", "x"}}, {{'D', "0a1c", ""}}, {{'G', "0a1c", ""}}}},
		}
		for _, c := range cs {
			c.layered = layered
			c.pre = mptPre
			c.name = tag + "/" + c.name
			out = append(out, c.scenario())
		}
	}
	// the same trie behind a node cache that hits (nodes committed by the previous block)
	for _, c := range []c16{
		{name: "warm-cache/R||R", doc: "two readers of a trie whose nodes are served by the block/state cache", scripts: [][]mop{{{'G', "0a1b", ""}, {'G', "1c00", ""}}, {{'G', "0a1c", ""}, {'T', "", ""}}}},
		{name: "warm-cache/W||R", doc: "writer || reader, nodes served by the block/state cache", scripts: [][]mop{{{'I', "0a1d", "x"}, {'D', "0b22", ""}}, {{'G', "0b22", ""}, {'G', "0a1d", ""}}}},
	} {
		c.warm, c.pre = true, mptPre
		out = append(out, c.scenario())
	}
	return out
}
