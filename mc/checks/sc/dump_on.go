//go:build !nodump

package sc

import "github.com/0chain/common/core/statecache"

const haveDump = true

func dumpSC(sc *statecache.StateCache) (string, int, int) { return statecache.VerifDump(sc) }
func dumpBC(bc *statecache.BlockCache) string             { return statecache.VerifDumpBC(bc) }
func dumpTC(tc *statecache.TransactionCache) string       { return statecache.VerifDumpTC(tc) }
