package model

import (
	"bytes"
	"encoding/binary"
	"sort"
)

// WEntry is one live key of the weighted trie.
type WEntry struct {
	Key    []byte // 32 bytes
	Value  []byte
	Weight uint64
}

// WModel is the reference model of the weighted trie: a sorted list.
type WModel struct {
	M map[string]WEntry
}

func NewWModel() *WModel { return &WModel{M: map[string]WEntry{}} }

func (m *WModel) Clone() *WModel {
	c := NewWModel()
	for k, v := range m.M {
		c.M[k] = v
	}
	return c
}

func (m *WModel) Sorted() []WEntry {
	es := make([]WEntry, 0, len(m.M))
	for _, e := range m.M {
		es = append(es, e)
	}
	sort.Slice(es, func(i, j int) bool { return bytes.Compare(es[i].Key, es[j].Key) < 0 })
	return es
}

func (m *WModel) Total() uint64 {
	var t uint64
	for _, e := range m.M {
		t += e.Weight
	}
	return t
}

// Owner returns the entry whose cumulative-weight interval in key order contains block b (1-based).
func (m *WModel) Owner(b uint64) (WEntry, bool) {
	var cum uint64
	for _, e := range m.Sorted() {
		if b > cum && b <= cum+e.Weight {
			return e, true
		}
		cum += e.Weight
	}
	return WEntry{}, false
}

func be64(v uint64) []byte {
	b := make([]byte, 8)
	binary.BigEndian.PutUint64(b, v)
	return b
}

func nibblesOf(key []byte) []byte {
	n := make([]byte, 0, len(key)*2)
	for _, b := range key {
		n = append(n, b>>4, b&15)
	}
	return n
}

type wnode struct {
	hash   []byte
	weight uint64
}

var emptyW = Sha3(nil)

// Root computes the root hash independently: value = H(BE weight || value); short =
// H(key nibbles || child hash); branch = H(BE weight || 16 child hashes, H("") for absent).
func (m *WModel) Root() []byte {
	es := m.Sorted()
	if len(es) == 0 {
		return emptyW
	}
	type item struct {
		nib []byte
		e   WEntry
	}
	items := make([]item, len(es))
	for i, e := range es {
		items[i] = item{nibblesOf(e.Key), e}
	}
	var build func(items []item, pos int) wnode
	build = func(items []item, pos int) wnode {
		if len(items) == 1 {
			v := wnode{Sha3(append(be64(items[0].e.Weight), items[0].e.Value...)), items[0].e.Weight}
			rest := items[0].nib[pos:]
			if len(rest) == 0 {
				return v
			}
			return wnode{Sha3(append(append([]byte{}, rest...), v.hash...)), v.weight}
		}
		// common prefix from pos
		lcp := len(items[0].nib) - pos
		for _, it := range items[1:] {
			n := 0
			for n < lcp && items[0].nib[pos+n] == it.nib[pos+n] {
				n++
			}
			lcp = n
		}
		if lcp > 0 {
			c := build(items, pos+lcp)
			return wnode{Sha3(append(append([]byte{}, items[0].nib[pos:pos+lcp]...), c.hash...)), c.weight}
		}
		var total uint64
		var hs [16][]byte
		for i := 0; i < 16; i++ {
			var sub []item
			for _, it := range items {
				if it.nib[pos] == byte(i) {
					sub = append(sub, it)
				}
			}
			if len(sub) == 0 {
				hs[i] = emptyW
				continue
			}
			c := build(sub, pos+1)
			hs[i] = c.hash
			total += c.weight
		}
		buf := be64(total)
		for i := 0; i < 16; i++ {
			buf = append(buf, hs[i]...)
		}
		return wnode{Sha3(buf), total}
	}
	return build(items, 0).hash
}
