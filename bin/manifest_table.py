chk("C01", "seq", "explicit-state BFS over all operation histories (bounded alphabet/depth) of the real trie vs map model",
    "Every history of inserts/overwrites/deletes/empty inserts/oversize inserts/save+reopen/version bumps over all even-length paths on {a,b} up to 4 characters (incl. empty path and all prefix pairs), up to the stated depth, is executed on the real trie on memory, layered and persistent(stand-in) stores; after every operation all lookups and a full iteration are compared with a map model. Exhaustive within the bounds, not a sample.",
    "Bounds: 2-3 path symbols, <=4 path characters, depth 3-5 per sub-run; RocksDB replaced by an in-memory write-log stand-in; small-scope hypothesis for longer paths.",
    "DESIGN.md section 4 C01")
