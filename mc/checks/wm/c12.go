package wm

import (
	"bytes"
	"crypto/sha256"
	"errors"
	"fmt"
	"sync"
	"sync/atomic"
	"time"

	"github.com/0chain/common/core/util/wmpt"

	"verifmc/dev"
	"verifmc/model"
	"verifmc/rt"
)

// ---- C12: a partial trie built from a path export evolves like the full trie

// extra (never stored) keys used to pad requests above the parallel-collection threshold;
// some share long prefixes with stored keys, others start under empty root slots.
var extraKeys = func() [][]byte {
	var out [][]byte
	for i := 0; i < 10; i++ {
		k := make([]byte, 32)
		switch {
		case i < 6:
			k[0] = byte(0x20 + 0x10*i) // first nibble 2..7: absent root slot
		case i == 6:
			k[1] = 0x11 // shares "00" with k0, diverges inside k2's prefix
		case i == 7:
			k[31] = 0x02 // shares 63 nibbles with k0/k1
		case i == 8:
			k[0] = 0x01
			k[5] = 0x77 // shares "01" with k4
		default:
			k[0] = 0x10
			k[9] = 0x55 // shares "1" with k5
		}
		out = append(out, k)
	}
	return out
}()

type fop struct {
	key []byte
	ki  int    // index in Keys, -1 for extra keys
	val string // "" = delete
}

func (o fop) String() string {
	name := fmt.Sprintf("x%x", o.key[:2])
	if o.ki >= 0 {
		name = fmt.Sprintf("k%d", o.ki)
	}
	if o.val == "" {
		return "delete(" + name + ")"
	}
	return fmt.Sprintf("update(%s,%s)", name, o.val)
}

type c12run struct {
	violate  func(key, msg string, replay map[string]any)
	cases    int64
	seqs     int64
	faults   int64
	distinct sync.Map
}

// one case: build source, export, build partial, apply the follow-up sequence to both.
func (r *c12run) runCase(c content, mode int, req [][]byte, reqName string, follow []fop) {
	atomic.AddInt64(&r.seqs, 1)
	describe := func() string {
		return fmt.Sprintf("content {%s} mode %d, requested %s, follow-ups %v", c, mode, reqName, follow)
	}
	replay := map[string]any{"content": c.String(), "mode": mode, "requested": reqName, "follow": fmt.Sprint(follow)}
	defer func() {
		if rec := recover(); rec != nil {
			r.violate("panic", describe()+": panic: "+fmt.Sprint(rec), replay)
		}
	}()
	src, m := buildTrie(c, Shared(false), mode)
	export, err := src.GetPath(req)
	if err != nil {
		r.violate("getpath", describe()+": GetPath failed: "+err.Error(), replay)
		return
	}
	part := wmpt.New(nil, nil)
	if err := part.Deserialize(export); err != nil {
		r.violate("deserialize", describe()+": Deserialize of the export failed: "+err.Error(), replay)
		return
	}
	cmp := func(when string) bool {
		sr, pr := src.Root(), part.Root()
		if !bytes.Equal(sr, pr) || src.Weight() != part.Weight() {
			r.violate("diverge:"+when[:min(len(when), 12)], fmt.Sprintf("%s: %s partial trie has root %x weight %d, source has root %x weight %d", describe(), when, pr, part.Weight(), sr, src.Weight()), replay)
			return false
		}
		if !bytes.Equal(sr, m.Root()) || src.Weight() != m.Total() {
			r.violate("source", fmt.Sprintf("%s: %s source trie itself left the model (C09's business, reported here because it blocks the comparison)", describe(), when), replay)
			return false
		}
		return true
	}
	if !cmp("right after the export") {
		return
	}
	if len(follow) == 0 {
		if !r.afterErrors(c, mode, req, m, export, describe, replay) {
			return
		}
	}
	for i, o := range follow {
		var v []byte
		var w uint64
		if o.val != "" {
			val := o.val
			if o.ki >= 0 {
				val = Shared(false).value(o.val, o.ki)
			}
			v, w = []byte(val), Weight(val)
		}
		es := src.Update(o.key, v, w)
		ep := part.Update(o.key, v, w)
		if es == nil {
			if o.val == "" {
				delete(m.M, string(o.key))
			} else {
				m.M[string(o.key)] = modelEntry(o.key, v, w)
			}
		}
		if es == nil && ep != nil {
			r.violate("partial-fails", fmt.Sprintf("%s: operation %d (%s) succeeds on the source and fails on the partial trie: %v", describe(), i, o, ep), replay)
			return
		}
		if es != nil && ep == nil {
			r.violate("source-fails", fmt.Sprintf("%s: operation %d (%s) fails on the source (%v) and succeeds on the partial trie", describe(), i, o, es), replay)
			return
		}
		if es != nil && !(errors.Is(es, wmpt.ErrNotFound) && errors.Is(ep, wmpt.ErrNotFound)) {
			r.violate("both-fail", fmt.Sprintf("%s: operation %d (%s): source error %v, partial error %v", describe(), i, o, es, ep), replay)
			return
		}
		if !cmp(fmt.Sprintf("after follow-up %d (%s)", i, o)) {
			return
		}
	}
	// the same request exported AGAIN after the follow-ups, from the source (which has served an export before
	// and was changed since) and from the partial trie (where it can serve it): each export deserialises to
	// the root and weight both tries now have
	if len(follow) > 0 {
		for who, tr := range []*wmpt.WeightedMerkleTrie{src, part} {
			name := []string{"source", "partial trie"}[who]
			ex2, err := tr.GetPath(req)
			if err != nil {
				if who == 0 {
					r.violate("re-export", fmt.Sprintf("%s: the same request exported again from the source after the follow-ups: GetPath returned %v", describe(), err), replay)
					return
				}
				continue // a partial trie need not be able to serve it (stubs on the way): not judged
			}
			p2 := wmpt.New(nil, nil)
			if err := p2.Deserialize(ex2); err != nil {
				r.violate("re-export-des:"+name, fmt.Sprintf("%s: the same request exported again from the %s after the follow-ups does not deserialise: %v", describe(), name, err), replay)
				return
			}
			if !bytes.Equal(p2.Root(), m.Root()) || p2.Weight() != m.Total() {
				r.violate("re-export-root:"+name, fmt.Sprintf("%s: the same request exported again from the %s after the follow-ups gives a partial trie with root %x weight %d; source and model have root %x weight %d", describe(), name, p2.Root(), p2.Weight(), m.Root(), m.Total()), replay)
				return
			}
		}
	}
	r.distinct.Store(fmt.Sprintf("%x", export), true)
}

func C12(tier rt.Tier) int {
	rep := rt.NewReport("C12", tier)
	maxKeys, depth, modes := 2, 2, []int{0, 1, 4, 6}
	if tier == rt.Thorough {
		maxKeys, depth, modes = 4, 3, []int{0, 1, 2, 3, 4, 5, 6}
	}
	var mu sync.Mutex
	reported := map[string]bool{}
	run := &c12run{}
	run.violate = func(key, msg string, replay map[string]any) {
		mu.Lock()
		defer mu.Unlock()
		if !reported[key] {
			reported[key] = true
			rep.Violate(msg, replay)
		} else {
			rep.Add("violations_suppressed_duplicates", 1)
		}
	}
	type task func()
	tasks := make(chan task, 1024)
	var wg sync.WaitGroup
	for w := 0; w < rt.Workers(); w++ {
		wg.Add(1)
		go func() {
			defer wg.Done()
			for t := range tasks {
				t()
			}
		}()
	}
	// follow-up sequences over the requested keys
	var sequences func(req []fop, depth int, cur []fop, emit func([]fop))
	sequences = func(ops []fop, depth int, cur []fop, emit func([]fop)) {
		emit(append([]fop{}, cur...))
		if depth == 0 {
			return
		}
		for _, o := range ops {
			sequences(ops, depth-1, append(cur, o), emit)
		}
	}
	opsFor := func(keys [][]byte, kis []int) []fop {
		var ops []fop
		for i, k := range keys {
			ops = append(ops, fop{k, kis[i], "a"}, fop{k, kis[i], "c"}, fop{k, kis[i], ""})
			if len(keys) <= 2 {
				ops = append(ops, fop{k, kis[i], "b"})
			}
		}
		return ops
	}
	cs := append([]content{{}}, contents(maxKeys, []string{"a", "b"})...)
	if tier == rt.Quick {
		// a few 3-key shapes (root branch with nested branch, deep pair under a branch)
		cs = append(cs, content{[]int{0, 1, 5}, []string{"a", "b", "a"}}, content{[]int{0, 2, 3}, []string{"b", "a", "a"}}, content{[]int{2, 3, 4}, []string{"a", "a", "b"}})
	}
	// live entries of weight 0 beside weighted ones (a non-empty trie of TOTAL weight 0 is left out: the library's
	// own idiom takes weight 0 for "empty", see C10)
	cs = append(cs, content{[]int{0, 1}, []string{"z", "a"}}, content{[]int{0, 5}, []string{"a", "z"}}, content{[]int{0, 1, 2}, []string{"z", "z", "a"}}, content{[]int{0, 2, 5}, []string{"z", "a", "z"}})
	// the same content (value and weight) under several keys: one stored value record shared by them
	cs = append(cs, content{[]int{0, 1}, []string{"A", "A"}}, content{[]int{0, 5}, []string{"A", "A"}}, content{[]int{0, 1, 5}, []string{"A", "A", "A"}}, content{[]int{0, 2}, []string{"B", "B"}})
	// (A) small contents: every subset of the six keys as request, every follow-up sequence
	budgetA := 6 * time.Minute
	if tier == rt.Thorough {
		budgetA = 14 * time.Minute
	}
	deadlineA := time.Now().Add(budgetA)
	var skippedA int64
	for _, c := range cs {
		for _, mode := range modes {
			// the six alphabet keys plus two never-stored keys: x2 falls into an empty slot of the root
			// branch, x0 shares 63 nibbles with k0/k1 (an empty slot of the deepest branch)
			reqKeys := append(append([][]byte{}, Keys...), extraKeys[0], extraKeys[7])
			for mask := 0; mask < 1<<len(reqKeys); mask++ {
				var req [][]byte
				var kis []int
				name := "{"
				for i := range reqKeys {
					if mask&(1<<i) != 0 {
						req = append(req, reqKeys[i])
						if i < len(Keys) {
							kis = append(kis, i)
							name += fmt.Sprintf("k%d ", i)
						} else {
							kis = append(kis, -1)
							name += fmt.Sprintf("x%x ", reqKeys[i][:1])
						}
					}
				}
				name += "}"
				d := depth
				if len(req) > 3 || (tier == rt.Quick && len(req) > 2) {
					d = 1 // the sequence space grows as (3|req|)^d; larger requests get single follow-ups (pairs in thorough)
					if tier == rt.Thorough {
						d = 2
					}
				}
				c, mode, req, name := c, mode, req, name
				ops := opsFor(req, kis)
				tasks <- func() {
					if time.Now().After(deadlineA) {
						atomic.AddInt64(&skippedA, 1) // time budget of part (A): reported as a cap
						return
					}
					atomic.AddInt64(&run.cases, 1)
					sequences(ops, d, nil, func(f []fop) { run.runCase(c, mode, req, name, f) })
				}
			}
		}
	}
	// (B) both sides of the parallel-collection threshold (more than 10 requested keys)
	family := []content{
		{[]int{0, 1}, []string{"a", "b"}},                                 // root is a shared-prefix (short) node
		{[]int{3}, []string{"a"}},                                         // root is a single entry
		{[]int{0, 1, 2, 3, 4, 5}, []string{"a", "b", "a", "b", "a", "b"}}, // root is a branch
		{[]int{0, 5}, []string{"a", "a"}},
		{},
	}
	for _, c := range family {
		for _, mode := range modes {
			for _, size := range []int{0, 1, 2, 10, 11, 12, 14, 16} {
				var req [][]byte
				var kis []int
				for i := 0; i < len(Keys) && len(req) < size; i++ {
					req = append(req, Keys[i])
					kis = append(kis, i)
				}
				for i := 0; len(req) < size; i++ {
					req = append(req, extraKeys[i%len(extraKeys)])
					kis = append(kis, -1)
				}
				name := fmt.Sprintf("%d keys (k0.. then absent padding)", size)
				c, mode, req := c, mode, req
				ops := opsFor(req, kis)
				d := 1
				if size <= 2 {
					d = depth
				}
				tasks <- func() {
					atomic.AddInt64(&run.cases, 1)
					sequences(ops, d, nil, func(f []fop) { run.runCase(c, mode, req, name, f) })
				}
			}
		}
	}
	// (C) scale: "any number of requested keys" -- one large trie, the paths to ALL its keys exported
	// (well over 10^5 exported nodes), then mirrored updates/deletes
	scale := []int{1000, 70000}
	if tier == rt.Thorough {
		scale = []int{1000, 70000, 250000}
	}
	for _, n := range scale {
		n := n
		tasks <- func() {
			atomic.AddInt64(&run.cases, 1)
			atomic.AddInt64(&run.seqs, 1)
			desc := fmt.Sprintf("trie of %d keys, the paths to all of them exported", n)
			replay := map[string]any{"scale": n}
			defer func() {
				if rec := recover(); rec != nil {
					run.violate("scale-panic", desc+": panic: "+fmt.Sprint(rec), replay)
				}
			}()
			src := wmpt.New(nil, nil)
			keys := make([][]byte, n)
			var total uint64
			for i := range keys {
				h := sha256.Sum256([]byte(fmt.Sprintf("scale-key-%d", i)))
				keys[i] = h[:]
				w := uint64(i%7 + 1)
				total += w
				if err := src.Update(keys[i], []byte(fmt.Sprintf("value-%d", i)), w); err != nil {
					run.violate("scale-build", fmt.Sprintf("%s: Update %d failed: %v", desc, i, err), replay)
					return
				}
			}
			if src.Weight() != total {
				run.violate("scale-weight", fmt.Sprintf("%s: source weight %d, sum of the weights %d", desc, src.Weight(), total), replay)
				return
			}
			export, err := src.GetPath(keys)
			if err != nil {
				run.violate("scale-getpath", desc+": GetPath failed: "+err.Error(), replay)
				return
			}
			part := wmpt.New(nil, nil)
			if err := part.Deserialize(export); err != nil {
				run.violate("scale-deserialize", fmt.Sprintf("%s (%d bytes): Deserialize of the export failed: %v", desc, len(export), err), replay)
				return
			}
			same := func(when string) bool {
				if !bytes.Equal(src.Root(), part.Root()) || src.Weight() != part.Weight() {
					run.violate("scale-diverge", fmt.Sprintf("%s: %s partial trie has root %x weight %d, source has root %x weight %d", desc, when, part.Root(), part.Weight(), src.Root(), src.Weight()), replay)
					return false
				}
				return true
			}
			if !same("right after the export") {
				return
			}
			for i := 0; i < 40; i++ {
				k := keys[(i*7919)%n]
				var v []byte
				var w uint64
				if i%2 == 0 {
					v, w = []byte(fmt.Sprintf("new-%d", i)), uint64(i+2)
				}
				es, ep := src.Update(k, v, w), part.Update(k, v, w)
				if (es == nil) != (ep == nil) {
					run.violate("scale-op", fmt.Sprintf("%s: mirrored operation %d: source returned %v, partial trie %v", desc, i, es, ep), replay)
					return
				}
				if !same(fmt.Sprintf("after mirrored operation %d", i)) {
					return
				}
			}
		}
	}
	tasks <- func() {
		n := combExports(run.violate)
		atomic.AddInt64(&run.cases, int64(n))
		atomic.AddInt64(&run.seqs, int64(3*n))
	}
	close(tasks)
	wg.Wait()
	if skippedA > 0 {
		rep.NotExhaustive(fmt.Sprintf("part (A): time budget of %v reached, %d (content, mode, request) cases not run (contents are enumerated smallest first)", budgetA, skippedA))
	}
	nd := 0
	run.distinct.Range(func(_, _ any) bool { nd++; return true })
	rep.Set("states", int(run.cases))
	rep.Set("transitions", int(run.seqs))
	rep.Set("traces_validated_against_impl", int(run.seqs))
	rep.Set("evaluations", int(run.seqs))
	rep.Set("distinct_nontrivial", nd)
	rep.Set("failed_exports_followed_up", int(run.faults))
	rep.Set("rule", fmt.Sprintf("(A) every content of <= %d keys (plus 3-key shapes) in storage modes %v x EVERY subset of the six alphabet keys plus two never-stored keys (one under an empty root slot, one under an empty slot of the deepest branch) as request x every follow-up sequence of <= %d updates/deletes restricted to the requested keys (single follow-ups for requests of more than 3 keys in quick); (B) shapes with root = shared-prefix node / single entry / branch / empty x request sizes 0,1,2,10,11,12,14,16 padded with never-stored keys (both sides of the >10 parallel-collection threshold) x every single follow-up; (C) tries of %v keys (hash-like keys, distinct values), the paths to all keys exported, 40 mirrored updates/deletes. for every (content, mode, request): every position of a storage read error during GetPath on the source, and every request for an uncovered key on the partial trie, each followed by the same export again; Oracle: export deserialises; partial root/weight == source root/weight (== model) before and after every mirrored operation; an operation that succeeds on the source must succeed on the partial trie; 'states' = (content, mode, request) cases, 'transitions' = mirrored sequences, distinct_nontrivial = distinct exports", maxKeys, modes, depth, scale))
	rep.Sample(map[string]any{"content": "k0=a k1=b", "mode": 1, "requested": "{k0 k5}", "follow": []string{"update(k5,a)", "delete(k0)"}})
	return rep.Finish()
}

// afterErrors: an export that FAILED must leave the trie it was asked of as it was. (a) every position of a
// storage read error during GetPath on a freshly built (collapsed) source, then the same request again
// without the fault; (b) a request the partial trie cannot serve (a key its export does not cover), then the
// partial trie exported again. Each re-export must deserialise to the source's root and weight and follow
// one update in step.
func (r *c12run) afterErrors(c content, mode int, req [][]byte, m *model.WModel, export []byte, describe func() string, replay map[string]any) bool {
	step := func(what string, a, b *wmpt.WeightedMerkleTrie, mm *model.WModel) bool {
		if !bytes.Equal(a.Root(), b.Root()) || a.Weight() != b.Weight() || !bytes.Equal(a.Root(), mm.Root()) || a.Weight() != mm.Total() {
			r.violate("after-error:"+what[:min(len(what), 14)], fmt.Sprintf("%s: %s: re-exported partial trie has root %x weight %d, its source root %x weight %d, the model root %x weight %d", describe(), what, b.Root(), b.Weight(), a.Root(), a.Weight(), mm.Root(), mm.Total()), replay)
			return false
		}
		return true
	}
	mirror := func(what string, a, b *wmpt.WeightedMerkleTrie, mm *model.WModel) bool {
		if !step(what, a, b, mm) {
			return false
		}
		if len(req) == 0 {
			return true
		}
		k := req[0]
		v := []byte("after-error")
		ea, eb := a.Update(k, v, 5), b.Update(k, v, 5)
		if ea != nil || eb != nil {
			r.violate("after-error-op:"+what[:min(len(what), 14)], fmt.Sprintf("%s: %s, then update of the first requested key: source %v, re-exported partial trie %v", describe(), what, ea, eb), replay)
			return false
		}
		mm.M[string(k)] = modelEntry(k, v, 5)
		return step(what+", then an update of the first requested key", a, b, mm)
	}
	// (a) read faults on the source
	for k := 0; k < 40; k++ {
		src, m2, st := buildTrieS(c, Shared(false), mode)
		st.ArmGetFault(k)
		_, _ = src.GetPath(req)
		hit := st.GetFaultHit
		st.ArmGetFault(-1)
		if !hit {
			break
		}
		atomic.AddInt64(&r.faults, 1)
		// an export that reports SUCCESS although a storage read failed under it must be a full export: it
		// deserialises, and every requested key can be changed on the partial trie as on the source
		{
			src1, m1, st1 := buildTrieS(c, Shared(false), mode)
			st1.ArmGetFault(k)
			exp1, err1 := src1.GetPath(req)
			st1.ArmGetFault(-1)
			if err1 == nil {
				what1 := fmt.Sprintf("storage read %d of GetPath failed and GetPath reported success", k)
				p1 := wmpt.New(nil, nil)
				if err := p1.Deserialize(exp1); err != nil {
					r.violate("fault-swallowed-des", fmt.Sprintf("%s: %s: the export does not deserialise: %v", describe(), what1, err), replay)
					return false
				}
				if !step(what1, src1, p1, m1) {
					return false
				}
				for qi, q := range req {
					v := []byte(fmt.Sprintf("after-fault-%d", qi))
					ea, eb := src1.Update(q, v, 3), p1.Update(q, v, 3)
					if ea != nil || eb != nil {
						r.violate("fault-swallowed-op", fmt.Sprintf("%s: %s, then an update of requested key %d: source %v, partial trie %v", describe(), what1, qi, ea, eb), replay)
						return false
					}
					m1.M[string(q)] = modelEntry(q, v, 3)
					if !step(fmt.Sprintf("%s, then an update of requested key %d", what1, qi), src1, p1, m1) {
						return false
					}
				}
			}
		}
		what := fmt.Sprintf("storage read %d of GetPath failed, GetPath called again", k)
		export, err := src.GetPath(req)
		if err != nil {
			r.violate("after-read-fault", fmt.Sprintf("%s: %s returned %v", describe(), what, err), replay)
			return false
		}
		p2 := wmpt.New(nil, nil)
		if err := p2.Deserialize(export); err != nil {
			r.violate("after-read-fault-des", fmt.Sprintf("%s: %s: the export does not deserialise: %v", describe(), what, err), replay)
			return false
		}
		if !mirror(what, src, p2, m2) {
			return false
		}
	}
	var part *wmpt.WeightedMerkleTrie
	// (b) a request the partial trie cannot serve, then a re-export of the partial trie. The partial trie
	// used here sits on an (empty) store: without any store, GetPath on a partial trie whose root is a bare
	// hash stub dereferences the nil store -- observed on the unchanged tree, covered by no property, not judged.
	part = wmpt.New(nil, dev.NewStore())
	if err := part.Deserialize(export); err != nil {
		return true // judged by the caller already
	}
	if _, err := part.GetPath(req); err != nil {
		return true // this partial trie cannot be exported at all (e.g. its root is a bare hash stub): nothing to compare
	}
	for _, k := range append(append([][]byte{}, Keys...), extraKeys[0], extraKeys[3], extraKeys[7]) {
		covered := false
		for _, q := range req {
			if bytes.Equal(q, k) {
				covered = true
			}
		}
		if covered {
			continue
		}
		if _, err := part.GetPath([][]byte{k}); err == nil {
			continue // the export happens to cover this key's path
		}
		atomic.AddInt64(&r.faults, 1)
		what := fmt.Sprintf("the partial trie rejected a request for the uncovered key %x.., and was exported again", k[:2])
		export, err := part.GetPath(req)
		if err != nil {
			r.violate("after-reject", fmt.Sprintf("%s: %s: GetPath returned %v", describe(), what, err), replay)
			return false
		}
		p2 := wmpt.New(nil, nil)
		if err := p2.Deserialize(export); err != nil {
			r.violate("after-reject-des", fmt.Sprintf("%s: %s: the export does not deserialise: %v", describe(), what, err), replay)
			return false
		}
		m2 := m.Clone()
		if !step(what, part, p2, m2) {
			return false
		}
	}
	return true
}
