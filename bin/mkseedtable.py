#!/usr/bin/env python3
"""Rewrites the seeded-change table in DESIGN.md (between the SEEDTABLE markers) from seeded/*/meta.json."""
import json,glob,os
root=os.path.dirname(os.path.dirname(os.path.abspath(__file__)))
rows=[]
missed=0
for d in sorted(glob.glob(root+'/seeded/*/')):
    name=os.path.basename(d.rstrip('/'))
    m=json.load(open(d+'meta.json'))
    first='MISSED first' if 'MISSED' in m.get('note','') or 'first missed' in m.get('note','') or 'first caught only' in m.get('note','') else 'detected'
    if first!='detected': missed+=1
    summ=m['summary'].replace('|','/').replace('\n',' ')
    if len(summ)>230: summ=summ[:227]+'...'
    rows.append('| %s | %s | %s | %s | %s |'%(name,m['property'],summ,', '.join(m['detected_by']),m.get('note','').replace('|','/')))
tab='%d seeded changes, %d of them missed by the first run of the checks (every miss was closed, see the last column).\n\n| seed | property | change (the sub-agent\'s summary) | detected by (quick tier) | first run / what was strengthened |\n|---|---|---|---|---|\n'%(len(rows),missed)+'\n'.join(rows)+'\n'
p=root+'/DESIGN.md'
s=open(p).read()
a='<!-- SEEDTABLE -->\n'; b='<!-- /SEEDTABLE -->\n'
i=s.index(a)+len(a); j=s.index(b)
open(p,'w').write(s[:i]+tab+s[j:])
print(len(rows),'seeds,',missed,'missed first')
