package mpt

import (
	"bytes"
	"context"
	"encoding/hex"
	"fmt"
	"sort"
	"strings"
	"sync"
	"sync/atomic"
	"time"

	"github.com/0chain/common/core/statecache"
	"github.com/0chain/common/core/util"
	"github.com/linxGnu/grocksdb"

	"verifmc/explore/seq"
	"verifmc/rt"
)

// ---- C04 / C05: multi-round block histories on the persistent store, with crash points (engine E3)

type roundCfg struct {
	name             string
	paths            []string
	vals             []string
	rounds           int
	txnOps           int // operations per transaction
	maxTxns          int // transactions per round
	depth            int
	c05              bool     // evaluate the dead-node / prune oracles instead of the save oracles
	skipEmptyRecords bool     // the caller records dead nodes only in rounds where something died
	initial          []string // paths (value "i") inserted, merged and saved as a round of their own before the exploration starts
	base             int64    // the first round's version is base+1 (round numbers are written as store keys: byte-order boundaries)
	syncOps          bool     // a round may end with the authoritative state of the round being merged in (MergeDB)
	readSets         bool     // "read the pending change set" (GetDeletes + GetChanges of the open transaction, else of the block trie) is an event
	forkSwitch       bool     // "the round just saved is abandoned and computed again on the previous round's state" (same version saved twice) is an event
	failedRecord     bool     // "the save's last write (the dead-node record) is rejected by the store, the block is given up and the round is computed again" is an event
	syncOlder        bool     // with syncOps: the authoritative state was computed one version earlier than the adopting trie's version (catching up)
}

type rEvent struct {
	K    byte // I, D, m merge, x discard, S save round, y/z the authoritative round state (previous round + one insert/delete) is merged in
	P, V string
}

func (e rEvent) String() string {
	switch e.K {
	case 'I':
		return fmt.Sprintf("txn.Insert(%q,%q)", e.P, e.V)
	case 'D':
		return fmt.Sprintf("txn.Delete(%q)", e.P)
	case 'm':
		return "merge txn"
	case 'x':
		return "discard txn"
	case 'S':
		return "record dead nodes + save round"
	case 'y':
		return fmt.Sprintf("MergeDB(full state of: previous round + Insert(%q,%q))", e.P, e.V)
	case 'z':
		return fmt.Sprintf("MergeDB(full state of: previous round + Delete(%q))", e.P)
	case 'q':
		return "read the pending change set (GetDeletes, GetChanges)"
	case 'F':
		return "save round, the store rejects the last write (the dead-node record): the block is given up, the round is computed again"
	case 'f':
		return "fork switch: the round just saved is abandoned, its version is computed and saved again on the previous state"
	case 'Y':
		return fmt.Sprintf("MergeDB(full state of: previous round + Insert(%q,%q), computed at the version before this trie's)", e.P, e.V)
	case 'Z':
		return fmt.Sprintf("MergeDB(full state of: previous round + Delete(%q), computed at the version before this trie's)", e.P)
	}
	return "?"
}

func (c roundCfg) events() []rEvent {
	var evs []rEvent
	for _, p := range c.paths {
		for _, v := range c.vals {
			evs = append(evs, rEvent{K: 'I', P: p, V: v})
		}
		evs = append(evs, rEvent{K: 'D', P: p})
	}
	evs = append(evs, rEvent{K: 'm'}, rEvent{K: 'x'}, rEvent{K: 'S'})
	if c.forkSwitch {
		evs = append(evs, rEvent{K: 'f'})
	}
	if c.failedRecord {
		evs = append(evs, rEvent{K: 'F'})
	}
	if c.readSets {
		evs = append(evs, rEvent{K: 'q'})
	}
	if c.syncOps {
		for _, p := range c.paths {
			if c.syncOlder {
				evs = append(evs, rEvent{K: 'Y', P: p, V: c.vals[len(c.vals)-1] + "!"}, rEvent{K: 'Z', P: p})
			} else {
				evs = append(evs, rEvent{K: 'y', P: p, V: c.vals[len(c.vals)-1] + "!"}, rEvent{K: 'z', P: p})
			}
		}
	}
	return evs
}

type savedRound struct {
	ver   int64
	root  []byte
	model map[string]string
	dead  map[string]bool // hex keys recorded dead in this round
}

type rWorld struct {
	reads                          int    // "read the pending change set" events in the current round (capped): reads change nothing the key shows
	readMarks                      string // where in the round they happened (transaction number / operations so far): part of the state key
	c                              roundCfg
	failedSaves                    int // 'F' events so far (the store object has seen a failed write): part of the state key
	lastSaveWrites, lastNodeWrites int // device writes of the last save (all / those made by SaveChanges)
	dev                            string
	pn                             *util.PNodeDB
	ver                            int64
	B                              *util.MerklePatriciaTrie
	model                          map[string]string
	T                              *util.MerklePatriciaTrie
	tmodel                         map[string]string
	tops                           int
	txns                           int
	saved                          []savedRound
	prevRoot                       []byte
	roundEvts                      []rEvent
	stats                          *crashStats
}

type crashStats struct {
	crashPoints, failPoints, prunes, pruneCrashPoints, reopenings int
}

func newRWorld(c roundCfg) *rWorld {
	w := &rWorld{c: c, ver: c.base + 1, stats: &crashStats{}}
	w.dev = fmt.Sprintf("rworld-%d", nextDev())
	pn, err := util.NewPNodeDB(w.dev, "")
	if err != nil {
		panic(err)
	}
	w.pn = pn
	w.startRound()
	if len(c.initial) > 0 {
		for _, p := range c.initial {
			if f := w.apply(rEvent{K: 'I', P: p, V: "i"}, false); f != "" {
				panic("initial content: " + f)
			}
		}
		if f := w.apply(rEvent{K: 'm'}, false); f != "" {
			panic("initial content: " + f)
		}
		if f := w.apply(rEvent{K: 'S'}, false); f != "" {
			panic("initial content: " + f)
		}
	}
	return w
}

func (w *rWorld) close() { resetDev(w.dev) }

func blockTrie(pn util.NodeDB, ver int64, root []byte) *util.MerklePatriciaTrie {
	return util.NewMerklePatriciaTrie(util.NewLevelNodeDB(util.NewMemoryNodeDB(), pn, false), util.Sequence(ver), root, statecache.NewEmpty())
}

func (w *rWorld) startRound() {
	w.B = blockTrie(w.pn, w.ver, w.prevRoot)
	w.model = map[string]string{}
	if n := len(w.saved); n > 0 {
		w.model = copyMap(w.saved[n-1].model)
	}
	w.T, w.tmodel, w.tops, w.txns = nil, nil, 0, 0
	w.roundEvts = nil
	w.reads, w.readMarks = 0, ""
}

// txnStep applies one non-save event to (B, T); shared by the explored run and by re-execution after a crash.
func txnStep(B *util.MerklePatriciaTrie, T **util.MerklePatriciaTrie, e rEvent) error {
	switch e.K {
	case 'I', 'D':
		if *T == nil {
			*T = util.NewMerklePatriciaTrie(util.NewLevelNodeDB(util.NewMemoryNodeDB(), B.GetNodeDB(), false), B.GetVersion(), B.GetRoot(), statecache.NewEmpty())
		}
		var err error
		if e.K == 'I' {
			_, err = (*T).Insert(util.Path(e.P), val(e.V))
		} else {
			_, err = (*T).Delete(util.Path(e.P))
		}
		return err
	case 'm':
		err := B.MergeMPTChanges(*T)
		*T = nil
		return err
	case 'x':
		*T = nil
	case 'q':
		// a reader of the pending sets (e.g. a validator looking at what the round has done so far)
		t := B
		if *T != nil {
			t = *T
		}
		_ = t.GetDeletes()
		_, _, _, _ = t.GetChanges()
		_ = t.GetChangeCount()
	case 'y', 'z', 'Y', 'Z':
		// the round's authoritative state, computed elsewhere from the previous round's state, arrives as a
		// node store holding that whole state; the block trie (with whatever it computed locally) adopts it
		_, _, _, start := B.GetChanges()
		pn := B.GetNodeDB().(*util.LevelNodeDB).GetPrev()
		aver := B.GetVersion()
		if e.K == 'Y' || e.K == 'Z' {
			aver-- // a state computed earlier, adopted by a trie whose version has moved on
		}
		A := util.NewMerklePatriciaTrie(util.NewLevelNodeDB(util.NewMemoryNodeDB(), pn, false), aver, start, statecache.NewEmpty())
		var err error
		if e.K == 'y' || e.K == 'Y' {
			_, err = A.Insert(util.Path(e.P), val(e.V))
		} else if _, err = A.Delete(util.Path(e.P)); err == util.ErrValueNotPresent {
			err = nil
		}
		if err != nil {
			return err
		}
		donor := util.NewMemoryNodeDB()
		err = A.Iterate(context.Background(), func(ctx context.Context, path util.Path, key util.Key, node util.Node) error {
			if node == nil {
				return fmt.Errorf("authoritative state lacks node %x", []byte(key))
			}
			return donor.PutNode(key, node.CloneNode())
		}, util.NodeTypeLeafNode|util.NodeTypeFullNode|util.NodeTypeExtensionNode)
		if err != nil {
			return err
		}
		return B.MergeDB(donor, A.GetRoot(), nil)
	}
	return nil
}

func hexKeys(nodes []util.Node) map[string]bool {
	m := map[string]bool{}
	for _, n := range nodes {
		m[n.GetHash()] = true
	}
	return m
}

func (w *rWorld) apply(e rEvent, judge bool) (fail string) {
	defer func() {
		if r := recover(); r != nil {
			fail = fmt.Sprintf("panic: %v", r)
		}
	}()
	if e.K == 'f' {
		n := len(w.saved)
		w.saved = w.saved[:n-1]
		w.ver--
		w.prevRoot = nil
		if n >= 2 {
			w.prevRoot = w.saved[n-2].root
		}
		w.startRound()
		return ""
	}
	if e.K == 'F' {
		devc := grocksdb.GetDevice(w.dev)
		deletes := w.B.GetDeletes()
		if err := w.B.SaveChanges(context.Background(), w.pn, false); err != nil {
			return fmt.Sprintf("SaveChanges: %v", err)
		}
		devc.SetFailAt(devc.Len())
		err := w.pn.RecordDeadNodes(deletes, w.ver)
		devc.SetFailAt(-1)
		if err == nil {
			return "the store rejected the write of the dead-node record but RecordDeadNodes returned nil"
		}
		w.failedSaves++
		w.startRound() // same version, same previous root: this block is given up
		return ""
	}
	if e.K == 'q' && w.reads < 2 {
		w.reads++
		w.readMarks += fmt.Sprintf("@%d.%d", w.txns, w.tops)
	}
	if e.K != 'S' {
		w.roundEvts = append(w.roundEvts, e)
		opening := w.T == nil && (e.K == 'I' || e.K == 'D')
		err := txnStep(w.B, &w.T, e)
		switch e.K {
		case 'I', 'D':
			if opening {
				w.tmodel = copyMap(w.model)
				w.tops = 0
				w.txns++
			}
			w.tops++
			_, present := w.tmodel[e.P]
			if e.K == 'I' {
				if err != nil {
					return fmt.Sprintf("insert returned %v", err)
				}
				w.tmodel[e.P] = e.V
			} else if present {
				if err != nil {
					return fmt.Sprintf("delete of present path returned %v", err)
				}
				delete(w.tmodel, e.P)
			} else if err != util.ErrValueNotPresent {
				return fmt.Sprintf("delete of absent path returned %v", err)
			}
		case 'm':
			if err != nil {
				return fmt.Sprintf("merge of the only open transaction was rejected: %v", err)
			}
			w.model = w.tmodel
		case 'y', 'z', 'Y', 'Z':
			if err != nil {
				return fmt.Sprintf("%v returned %v", e, err)
			}
			w.model = map[string]string{}
			if n := len(w.saved); n > 0 {
				w.model = copyMap(w.saved[n-1].model)
			}
			if e.K == 'y' || e.K == 'Y' {
				w.model[e.P] = e.V
			} else {
				delete(w.model, e.P)
			}
			if f := viewOf(w.B, w.model, w.c.paths); f != "" {
				return "after MergeDB of the authoritative state, the block trie: " + f
			}
		}
		return ""
	}
	// ---- save the round
	devc := grocksdb.GetDevice(w.dev)
	idx0 := devc.Len()
	deletes := w.B.GetDeletes()
	if err := w.B.SaveChanges(context.Background(), w.pn, false); err != nil {
		return fmt.Sprintf("SaveChanges: %v", err)
	}
	w.lastNodeWrites = devc.Len() - idx0
	if !(w.c.skipEmptyRecords && len(deletes) == 0) {
		if err := w.pn.RecordDeadNodes(deletes, w.ver); err != nil {
			return fmt.Sprintf("RecordDeadNodes: %v", err)
		}
	}
	idx1 := devc.Len()
	w.lastSaveWrites = idx1 - idx0
	w.saved = append(w.saved, savedRound{ver: w.ver, root: w.B.GetRoot(), model: copyMap(w.model), dead: hexKeys(deletes)})
	if judge {
		log := devc.Snapshot()
		var f string
		if w.c.c05 {
			f = w.judgeDeadAndPrune(log)
		} else {
			f = w.judgeSave(log, idx0, idx1)
		}
		if f != "" {
			return f
		}
	}
	w.prevRoot = w.B.GetRoot()
	w.ver++
	w.startRound()
	return ""
}

// openLog opens a fresh PNodeDB on a device that holds exactly the given log.
func openLog(log []grocksdb.Rec) (*util.PNodeDB, string) {
	p := fmt.Sprintf("reopen-%d", nextDev())
	grocksdb.SetDeviceLog(p, log)
	pn, err := util.NewPNodeDB(p, "")
	if err != nil {
		panic(err)
	}
	return pn, p
}

// complete: a trie opened on the store alone at the saved root reads exactly the saved content, no missing node.
func complete(pn *util.PNodeDB, s savedRound, paths []string) string {
	t := util.NewMerklePatriciaTrie(pn, util.Sequence(s.ver), s.root, statecache.NewEmpty())
	if f := viewOf(t, s.model, paths); f != "" {
		return fmt.Sprintf("round %d (root %x): %s", s.ver, s.root, f)
	}
	missing, err := t.HasMissingNodes(context.Background())
	if err != nil || missing {
		return fmt.Sprintf("round %d: HasMissingNodes = %v, %v", s.ver, missing, err)
	}
	if len(s.root) == 0 {
		return "" // empty trie: GetAllMissingNodes reports the nil root itself; the property says nothing about that
	}
	if keys, err := t.GetAllMissingNodes(); err != nil || len(keys) != 0 {
		return fmt.Sprintf("round %d: GetAllMissingNodes = %x, %v", s.ver, keys, err)
	}
	return ""
}

func storedKeysHashed(pn *util.PNodeDB) string {
	fail := ""
	_ = pn.Iterate(context.Background(), func(ctx context.Context, key util.Key, node util.Node) error {
		if fail == "" && !bytes.Equal(key, node.GetHashBytes()) {
			fail = fmt.Sprintf("persistent store: key %x holds a node hashing to %x", []byte(key), node.GetHashBytes())
		}
		return nil
	})
	return fail
}

func (w *rWorld) judgeSave(log []grocksdb.Rec, idx0, idx1 int) string {
	// 1. reopen from the log alone: every round ever saved is complete
	pn, p := openLog(log)
	w.stats.reopenings++
	for _, s := range w.saved {
		if f := complete(pn, s, w.c.paths); f != "" {
			resetDev(p)
			return "after save, reopened store: " + f
		}
	}
	f := storedKeysHashed(pn)
	resetDev(p)
	if f != "" {
		return f
	}
	cur := w.saved[len(w.saved)-1]
	// 2. every crash point inside the save's write stream
	for cut := idx0; cut < idx1; cut++ {
		w.stats.crashPoints++
		pn, p := openLog(log[:cut])
		for _, s := range w.saved[:len(w.saved)-1] {
			if f := complete(pn, s, w.c.paths); f != "" {
				resetDev(p)
				return fmt.Sprintf("crash after %d of %d writes of the save of round %d damaged an earlier root: %s", cut-idx0, idx1-idx0, cur.ver, f)
			}
		}
		// re-execute and re-save the interrupted round on the recovered store
		B := blockTrie(pn, cur.ver, w.prevRoot)
		var T *util.MerklePatriciaTrie
		for _, e := range w.roundEvts {
			if err := txnStep(B, &T, e); err != nil && err != util.ErrValueNotPresent {
				resetDev(p)
				return fmt.Sprintf("crash after %d writes of the save of round %d: re-execution failed at %v: %v", cut-idx0, cur.ver, e, err)
			}
		}
		dels := B.GetDeletes()
		if err := B.SaveChanges(context.Background(), pn, false); err != nil {
			resetDev(p)
			return fmt.Sprintf("re-save after crash: %v", err)
		}
		if err := pn.RecordDeadNodes(dels, cur.ver); err != nil {
			resetDev(p)
			return fmt.Sprintf("re-record after crash: %v", err)
		}
		if !bytes.Equal(B.GetRoot(), cur.root) {
			resetDev(p)
			return fmt.Sprintf("crash after %d writes of the save of round %d: re-execution gives root %x, original %x", cut-idx0, cur.ver, B.GetRoot(), cur.root)
		}
		pn2, p2 := openLog(grocksdb.GetDevice(p).Snapshot())
		w.stats.reopenings++
		for _, s := range w.saved {
			if f := complete(pn2, s, w.c.paths); f != "" {
				resetDev(p)
				resetDev(p2)
				return fmt.Sprintf("crash after %d writes of the save of round %d, then re-executed and re-saved: %s", cut-idx0, cur.ver, f)
			}
		}
		resetDev(p)
		resetDev(p2)
	}
	return ""
}

// judgeFailedWrites: injected write errors inside the save (evaluated on a separately replayed world).
// nodeWrites: how many of the save's writes SaveChanges makes (the rest is the dead-node record).
func (w *rWorld) saveWithFailAt(j, nodeWrites int) string {
	devc := grocksdb.GetDevice(w.dev)
	idx0 := devc.Len()
	devc.SetFailAt(idx0 + j)
	deletes := w.B.GetDeletes()
	err1 := w.B.SaveChanges(context.Background(), w.pn, false)
	var err2 error
	if err1 == nil && !(w.c.skipEmptyRecords && len(deletes) == 0) {
		err2 = w.pn.RecordDeadNodes(deletes, w.ver)
	}
	devc.SetFailAt(-1)
	w.stats.failPoints++
	if err1 == nil && err2 == nil {
		return fmt.Sprintf("write %d of the save failed in the device but neither SaveChanges nor RecordDeadNodes returned an error", j)
	}
	if j < nodeWrites && err1 == nil {
		return "a node batch write failed in the device but SaveChanges returned nil"
	}
	pn, p := openLog(devc.Snapshot())
	for _, s := range w.saved {
		if f := complete(pn, s, w.c.paths); f != "" {
			resetDev(p)
			return fmt.Sprintf("after a failed write %d in the save of round %d an earlier root is damaged: %s", j, w.ver, f)
		}
	}
	resetDev(p)
	// the caller tries again, with the same trie and the same store object: now everything is written
	deletes = w.B.GetDeletes()
	if err := w.B.SaveChanges(context.Background(), w.pn, false); err != nil {
		return fmt.Sprintf("write %d of the save of round %d failed (reported: %v / %v); the save tried again on the same objects returned %v", j, w.ver, err1, err2, err)
	}
	if !(w.c.skipEmptyRecords && len(deletes) == 0) {
		if err := w.pn.RecordDeadNodes(deletes, w.ver); err != nil {
			return fmt.Sprintf("write %d of the save of round %d failed (reported: %v / %v); RecordDeadNodes tried again on the same objects returned %v", j, w.ver, err1, err2, err)
		}
	}
	w.saved = append(w.saved, savedRound{ver: w.ver, root: w.B.GetRoot(), model: copyMap(w.model), dead: hexKeys(deletes)})
	log := devc.Snapshot()
	when := fmt.Sprintf("write %d of the save of round %d failed (reported: %v / %v) and the save was tried again on the same objects, which reported success; ", j, w.ver, err1, err2)
	if w.c.c05 {
		if f := w.judgeDeadAndPrune(log); f != "" {
			return when + f
		}
		return ""
	}
	pn, p = openLog(log)
	defer resetDev(p)
	w.stats.reopenings++
	for _, s := range w.saved {
		if f := complete(pn, s, w.c.paths); f != "" {
			return when + "reopened store: " + f
		}
	}
	return ""
}

// reachable walks the decoded nodes of a materialised device from root.
func reachable(nodes map[string][]byte, root []byte, out map[string]bool) string {
	if len(root) == 0 {
		return ""
	}
	raw, ok := nodes[string(root)]
	if !ok {
		return fmt.Sprintf("node %x absent", root)
	}
	out[hex.EncodeToString(root)] = true
	n, err := util.CreateNode(bytes.NewReader(raw))
	if err != nil {
		return err.Error()
	}
	switch x := n.(type) {
	case *util.FullNode:
		for _, c := range x.Children {
			if c != nil {
				if f := reachable(nodes, c, out); f != "" {
					return f
				}
			}
		}
	case *util.ExtensionNode:
		return reachable(nodes, x.NodeKey, out)
	}
	return ""
}

func (w *rWorld) judgeDeadAndPrune(log []grocksdb.Rec) string {
	content := grocksdb.Materialize(log)
	cur := w.saved[len(w.saved)-1]
	// Oracle 1: nothing recorded dead in a round r <= cur is reachable from the current root
	reach := map[string]bool{}
	if f := reachable(content[0], cur.root, reach); f != "" {
		return fmt.Sprintf("round %d root not fully stored: %s", cur.ver, f)
	}
	for _, s := range w.saved {
		for k := range s.dead {
			if reach[k] {
				return fmt.Sprintf("node %s recorded dead in round %d is reachable from the root of round %d", k, s.ver, cur.ver)
			}
		}
	}
	// Oracle 2: prune at every version, with every crash point
	// prune versions: from the first saved version to one past the current one, and - when the history starts at
	// version 1 or 2 - also version 0 (nothing lies below it: a prune that must remove nothing)
	v0 := w.saved[0].ver
	if v0 >= 1 && v0 <= 2 {
		v0 = 0
	}
	for v := v0; v <= cur.ver+1; v++ {
		allowed := map[string]bool{}
		for _, s := range w.saved {
			if s.ver < v {
				for k := range s.dead {
					allowed[k] = true
				}
			}
		}
		check := func(pn *util.PNodeDB, after [2]map[string][]byte, full bool, when string) string {
			for _, s := range w.saved {
				if s.ver >= v {
					if f := complete(pn, s, w.c.paths); f != "" {
						return fmt.Sprintf("%s: %s", when, f)
					}
				}
			}
			if full {
				for k := range content[0] {
					if _, still := after[0][k]; !still && !allowed[hex.EncodeToString([]byte(k))] {
						return fmt.Sprintf("%s: node %x was removed but no round below %d recorded it dead", when, k, v)
					}
				}
			}
			return ""
		}
		pn, p := openLog(log)
		w.stats.prunes++
		if err := pn.PruneBelowVersion(context.Background(), v); err != nil {
			resetDev(p)
			return fmt.Sprintf("PruneBelowVersion(%d): %v", v, err)
		}
		plog := grocksdb.GetDevice(p).Snapshot()
		pn2, p2 := openLog(plog)
		f := check(pn2, grocksdb.Materialize(plog), true, fmt.Sprintf("after PruneBelowVersion(%d), store reopened", v))
		resetDev(p)
		resetDev(p2)
		if f != "" {
			return f
		}
		for cut := len(log); cut <= len(plog); cut++ { // cut == len(plog): the prune completed, and is simply run again
			w.stats.pruneCrashPoints++
			pn3, p3 := openLog(plog[:cut])
			when := fmt.Sprintf("crash after %d of %d writes of PruneBelowVersion(%d)", cut-len(log), len(plog)-len(log), v)
			if f := check(pn3, grocksdb.Materialize(plog[:cut]), true, when); f != "" {
				resetDev(p3)
				return f
			}
			if err := pn3.PruneBelowVersion(context.Background(), v); err != nil {
				resetDev(p3)
				return fmt.Sprintf("%s, prune re-run: %v", when, err)
			}
			rlog := grocksdb.GetDevice(p3).Snapshot()
			pn4, p4 := openLog(rlog)
			f := check(pn4, grocksdb.Materialize(rlog), true, when+", prune re-run")
			resetDev(p3)
			resetDev(p4)
			if f != "" {
				return f
			}
		}
	}
	return ""
}

func (w *rWorld) key() string {
	var sb strings.Builder
	mk := func(m map[string]string) string {
		ks := make([]string, 0, len(m))
		for k, v := range m {
			ks = append(ks, k+"="+v)
		}
		sort.Strings(ks)
		return strings.Join(ks, ",")
	}
	for _, s := range w.saved {
		ds := make([]string, 0, len(s.dead))
		for k := range s.dead {
			ds = append(ds, k)
		}
		sort.Strings(ds)
		fmt.Fprintf(&sb, "R%d:%x{%s}dead[%s];", s.ver, s.root, mk(s.model), strings.Join(ds, ","))
	}
	content := grocksdb.Materialize(grocksdb.GetDevice(w.dev).Snapshot())
	var ks []string
	for k := range content[0] {
		ks = append(ks, hex.EncodeToString([]byte(k)))
	}
	sort.Strings(ks)
	sb.WriteString("dev[" + strings.Join(ks, ",") + "]")
	tk := func(t *util.MerklePatriciaTrie) string { return (&World{T: t, Ver: w.ver}).ImplKey() }
	sb.WriteString("B:" + mk(w.model) + "#" + tk(w.B))
	if w.T != nil {
		fmt.Fprintf(&sb, "T:%s#%s#%d", mk(w.tmodel), tk(w.T), w.tops)
	}
	fmt.Fprintf(&sb, "txns=%d reads=%d%s failed=%d", w.txns, w.reads, w.readMarks, w.failedSaves)
	return sb.String()
}

func runRounds(rep *rt.Report, c roundCfg, deadline time.Time, agg *crashStats) {
	evs := c.events()
	build := func(h []uint8, judgeLast bool) (*rWorld, string, bool) {
		w := newRWorld(c)
		for i, x := range h {
			last := i == len(h)-1
			if f := w.apply(evs[x], last && judgeLast); f != "" {
				return w, f, !last
			}
		}
		return w, "", false
	}
	cfg := seq.Config{
		Name: c.name, NOps: len(evs), MaxDepth: c.depth, Workers: rt.Workers(), Deadline: deadline,
		OpName: func(i int) string { return evs[i].String() },
		Enabled: func(h []uint8, op int) bool {
			open, tops, txns, rounds, synced := false, 0, 0, 0, false
			forks, fresh := 0, false // fresh: the last event was a save (nothing done in the new round yet)
			for _, x := range h {
				fresh = evs[x].K == 'S'
				switch evs[x].K {
				case 'f':
					forks++
					rounds--
				case 'y', 'z', 'Y', 'Z':
					synced = true
				case 'I', 'D':
					if !open {
						open, tops = true, 0
						txns++
					}
					tops++
				case 'm', 'x':
					open = false
				case 'S':
					rounds++
					txns = 0
					synced = false
				case 'F':
					open, txns, synced = false, 0, false
				}
			}
			if evs[op].K == 'f' {
				return fresh && forks == 0
			}
			if evs[op].K == 'F' {
				for _, x := range h {
					if evs[x].K == 'F' {
						return false // once per history
					}
				}
				return !open && !synced && rounds < c.rounds
			}
			if evs[op].K == 'q' {
				n := 0
				for i := len(h) - 1; i >= 0 && evs[h[i]].K != 'S'; i-- {
					if evs[h[i]].K == 'q' {
						n++
					}
				}
				return n < 2 && !synced && rounds < c.rounds
			}
			if synced {
				return evs[op].K == 'S' // the adopted state is what the round saves
			}
			switch evs[op].K {
			case 'I', 'D':
				if open {
					return tops < c.txnOps
				}
				return txns < c.maxTxns && rounds < c.rounds
			case 'm', 'x':
				return open
			default:
				return !open && rounds < c.rounds
			}
		},
		Run: func(h []uint8) seq.Outcome {
			w, f, prefixFailed := build(h, true)
			defer w.close()
			if f != "" {
				if prefixFailed {
					f = "non-deterministic replay: prefix failed: " + f
				}
				return seq.Outcome{Verdict: seq.Violation, Msg: f}
			}
			if len(h) > 0 && evs[h[len(h)-1]].K == 'S' {
				// injected write failures: each on its own replayed world
				j0 := 0
				if c.c05 {
					j0 = w.lastNodeWrites // C05: only the dead-node record's write (the node writes are C04's)
				}
				for j := j0; j < w.lastSaveWrites; j++ {
					w2, f2, _ := build(h[:len(h)-1], false)
					if f2 == "" {
						f2 = w2.saveWithFailAt(j, w.lastNodeWrites)
					}
					w2.close()
					w.stats.failPoints += w2.stats.failPoints
					if f2 != "" {
						return seq.Outcome{Verdict: seq.Violation, Msg: f2}
					}
				}
			}
			aggAdd(agg, w.stats)
			return seq.Outcome{Key: w.key()}
		},
	}
	st := seq.Explore(cfg)
	absorb(rep, fmt.Sprintf("%s: %d rounds, <=%d txns per round x <=%d ops, paths %q, values %q, depth<=%d", c.name, c.rounds, c.maxTxns, c.txnOps, c.paths, c.vals, c.depth), st)
}

var aggMu = make(chan struct{}, 1)

func aggAdd(a, s *crashStats) {
	aggMu <- struct{}{}
	a.crashPoints += s.crashPoints
	a.failPoints += s.failPoints
	a.prunes += s.prunes
	a.pruneCrashPoints += s.pruneCrashPoints
	a.reopenings += s.reopenings
	<-aggMu
}

var nestedRound = []string{"", "aa", "ab", "aaaa", "aaab"}

var prefixOverExt = []string{"aa", "aaabaa", "aaabab", "ab"}

func C04(tier rt.Tier) int {
	rep := rt.NewReport("C04", tier)
	agg := &crashStats{}
	var runs []roundCfg
	per := 30 * time.Second
	if tier == rt.Quick {
		runs = []roundCfg{
			{name: "prefixfree-2rounds", paths: pfPaths[:4], vals: []string{"x"}, rounds: 2, txnOps: 2, maxTxns: 2, depth: 8},
			{name: "nested-2rounds", paths: nestedRound[:4], vals: []string{"x"}, rounds: 2, txnOps: 2, maxTxns: 1, depth: 7},
			// txn2 of a round undoes and redoes what txn1 of the same round wrote, plus one more change
			{name: "restore-within-round", paths: pfPaths[:2], vals: []string{"x", "y"}, rounds: 2, txnOps: 3, maxTxns: 2, depth: 9},
			// a round's local computation is superseded by the authoritative state of the round (MergeDB)
			{name: "sync-merge-2rounds", paths: pfPaths[:3], vals: []string{"x"}, rounds: 2, txnOps: 2, maxTxns: 1, depth: 8, syncOps: true},
			{name: "rounds-255..257", paths: pfPaths[:2], vals: []string{"x", "y"}, rounds: 3, txnOps: 1, maxTxns: 1, depth: 9, base: 254},
			{name: "prefix-key-over-extension", initial: prefixOverExt, paths: prefixOverExt, vals: []string{"x"}, rounds: 2, txnOps: 2, maxTxns: 1, depth: 7},
			{name: "add-then-remove-across-rounds", initial: pfPaths[:2], paths: pfPaths[:4], vals: []string{"x"}, rounds: 3, txnOps: 1, maxTxns: 1, depth: 9},
			{name: "add-then-remove-child-of-root-branch", initial: []string{"1a", "2a"}, paths: []string{"1a", "2a", "3a", "1b"}, vals: []string{"x"}, rounds: 3, txnOps: 1, maxTxns: 1, depth: 9},
			{name: "fork-switch", initial: pfPaths[:2], paths: pfPaths[:3], vals: []string{"x", "y"}, rounds: 3, txnOps: 1, maxTxns: 1, depth: 9, forkSwitch: true},
			{name: "1path-6rounds", initial: []string{"0b22"}, paths: pfPaths[:1], vals: []string{"x", "y"}, rounds: 6, txnOps: 1, maxTxns: 1, depth: 18},
			{name: "sync-merge-older-origin", paths: pfPaths[:3], vals: []string{"x"}, rounds: 2, txnOps: 2, maxTxns: 1, depth: 7, syncOps: true, syncOlder: true, base: 4},
		}
	} else {
		per = 4 * time.Minute
		runs = []roundCfg{
			{name: "prefixfree-3rounds", paths: pfPaths[:5], vals: []string{"x", "y"}, rounds: 3, txnOps: 2, maxTxns: 2, depth: 12},
			{name: "nested-3rounds", paths: nestedRound, vals: []string{"x"}, rounds: 3, txnOps: 2, maxTxns: 2, depth: 12},
			{name: "sync-merge-3rounds", paths: nestedRound[:4], vals: []string{"x"}, rounds: 3, txnOps: 2, maxTxns: 1, depth: 12, syncOps: true},
			{name: "rounds-254..257", paths: pfPaths[:3], vals: []string{"x"}, rounds: 4, txnOps: 1, maxTxns: 2, depth: 14, base: 253},
		}
	}
	if rt.SubRun {
		// BatchSize = 2: a save of more than two nodes crosses the batching threshold of the store layer
		runs = []roundCfg{
			{name: rt.VariantPrefix + "prefixfree-2rounds", paths: pfPaths[:4], vals: []string{"x"}, rounds: 2, txnOps: 2, maxTxns: 2, depth: 7},
			{name: rt.VariantPrefix + "nested-2rounds", paths: nestedRound[:4], vals: []string{"x"}, rounds: 2, txnOps: 2, maxTxns: 1, depth: 7},
			{name: rt.VariantPrefix + "sync-merge-2rounds", paths: pfPaths[:3], vals: []string{"x"}, rounds: 2, txnOps: 2, maxTxns: 1, depth: 7, syncOps: true},
		}
		if tier == rt.Thorough {
			runs[0].rounds, runs[0].depth = 3, 11
			runs[1].rounds, runs[1].depth, runs[1].maxTxns = 3, 11, 2
		}
	}
	for _, c := range runs {
		runRounds(rep, c, time.Now().Add(per), agg)
	}
	if !rt.SubRun && (rt.Replay == nil || rt.Replay.Raw["run"] == "big-round") {
		bigRounds(rep, tier)
	}
	if !rt.SubRun && (rt.Replay == nil || rt.Replay.Raw["run"] == "cancelled-saves") {
		cancelledSaves(rep, tier)
	}
	rep.RunVariant()
	rep.Set("crash_points_explored", agg.crashPoints)
	rep.Set("injected_write_failures", agg.failPoints)
	rep.Set("store_reopenings", agg.reopenings)
	rep.Set("rule", "BFS over all multi-round histories: per round sequential child transactions (LevelNodeDB over the block trie) merged or discarded, then RecordDeadNodes + SaveChanges(includeDeletes=false) into PNodeDB on the write-log stand-in. At every save: the store is reopened from its log alone and every round ever saved must read exactly its model content with no missing node and every key == hash of its node; for EVERY prefix of the save's write stream the recovered store must keep all earlier roots complete, and re-executing + re-saving the interrupted round must give the same root and a complete state; each write of the save is also made to fail (error must surface, earlier roots intact)")
	rep.Assumption("crash model: a crash loses a suffix of the unsynced write log, never reorders it, write batches are atomic (RocksDB WAL semantics for sync=false writes)")
	return rep.End()
}

func C05(tier rt.Tier) int {
	rep := rt.NewReport("C05", tier)
	agg := &crashStats{}
	var runs []roundCfg
	per := 30 * time.Second
	if tier == rt.Thorough {
		per = 150 * time.Second
	}
	if tier == rt.Quick {
		runs = []roundCfg{
			{name: "prefixfree-3rounds", paths: pfPaths[:3], vals: []string{"x"}, rounds: 3, txnOps: 1, maxTxns: 3, depth: 9, c05: true},
			{name: "nested-2rounds", paths: nestedRound[:4], vals: []string{"x"}, rounds: 2, txnOps: 2, maxTxns: 2, depth: 8, c05: true},
			{name: "restore-within-round", paths: pfPaths[:2], vals: []string{"x", "y"}, rounds: 2, txnOps: 3, maxTxns: 2, depth: 9, c05: true},
			// rounds in which nothing died leave no dead-node record (gaps in the record versions)
			{name: "idle-rounds-4", paths: pfPaths[:2], vals: []string{"x", "y"}, rounds: 4, txnOps: 1, maxTxns: 1, depth: 11, c05: true, skipEmptyRecords: true},
			// a round's local computation is superseded by the authoritative state of the round (MergeDB)
			{name: "sync-merge-2rounds", paths: pfPaths[:3], vals: []string{"x"}, rounds: 2, txnOps: 2, maxTxns: 1, depth: 8, c05: true, syncOps: true},
			// round numbers are keys of the dead-node records: byte-order boundaries of the key encoding
			{name: "rounds-255..257", paths: pfPaths[:2], vals: []string{"x", "y"}, rounds: 3, txnOps: 1, maxTxns: 1, depth: 9, c05: true, base: 254},
			// a key that is a prefix of others, whose branch has ONE child that is an extension (two shared characters
			// below the prefix), next to a sibling: deleting the prefix key lifts the extension
			{name: "prefix-key-over-extension", initial: prefixOverExt, paths: prefixOverExt, vals: []string{"x"}, rounds: 2, txnOps: 2, maxTxns: 1, depth: 7, c05: true},
			// three more rounds on top of a saved two-key state: a sibling added in one round and removed in a later one
			// brings branches back to a content they had before
			{name: "add-then-remove-across-rounds", initial: pfPaths[:2], paths: pfPaths[:4], vals: []string{"x"}, rounds: 3, txnOps: 1, maxTxns: 1, depth: 9, c05: true},
			{name: "add-then-remove-child-of-root-branch", initial: []string{"1a", "2a"}, paths: []string{"1a", "2a", "3a", "1b"}, vals: []string{"x"}, rounds: 3, txnOps: 1, maxTxns: 1, depth: 9, c05: true},
			// a version saved twice: the first attempt of a round is abandoned (fork switch) and the round saved again, possibly as an idle round
			{name: "fork-switch", initial: pfPaths[:2], paths: pfPaths[:3], vals: []string{"x", "y"}, rounds: 3, txnOps: 1, maxTxns: 1, depth: 9, c05: true, forkSwitch: true},
			// somebody reads the pending deletes/changes in the middle of a round
			// the store rejects the write of a round's dead-node record; that block is given up and the round is
			// computed again (possibly differently) with the same store object
			{name: "failed-record-then-recomputed", initial: pfPaths[:2], paths: pfPaths[:3], vals: []string{"x"}, rounds: 3, txnOps: 1, maxTxns: 1, depth: 9, c05: true, failedRecord: true},
			{name: "reads-of-pending-sets", initial: []string{"0a11", "0b22"}, paths: []string{"0a11", "0c33", "0d44"}, vals: []string{"x"}, rounds: 1, txnOps: 4, maxTxns: 2, depth: 9, c05: true, readSets: true},
			// one path, many rounds: a long history of the same few nodes dying and coming back
			{name: "1path-6rounds", initial: []string{"0b22"}, paths: pfPaths[:1], vals: []string{"x", "y"}, rounds: 6, txnOps: 1, maxTxns: 1, depth: 18, c05: true},
			{name: "rounds-65535..65537", paths: pfPaths[:2], vals: []string{"x", "y"}, rounds: 3, txnOps: 1, maxTxns: 1, depth: 9, c05: true, base: 65534},
		}
	} else {
		runs = []roundCfg{
			{name: "prefixfree-4rounds", paths: pfPaths[:4], vals: []string{"x"}, rounds: 4, txnOps: 1, maxTxns: 3, depth: 14, c05: true},
			{name: "nested-3rounds", paths: nestedRound, vals: []string{"x", "y"}, rounds: 3, txnOps: 2, maxTxns: 3, depth: 12, c05: true},
			{name: "sync-merge-3rounds", paths: nestedRound[:4], vals: []string{"x"}, rounds: 3, txnOps: 2, maxTxns: 1, depth: 12, c05: true, syncOps: true},
			{name: "rounds-254..257", paths: pfPaths[:3], vals: []string{"x"}, rounds: 4, txnOps: 1, maxTxns: 2, depth: 14, c05: true, base: 253},
			{name: "prefix-key-over-extension", initial: prefixOverExt, paths: prefixOverExt, vals: []string{"x"}, rounds: 3, txnOps: 2, maxTxns: 2, depth: 12, c05: true},
			{name: "rounds-65535..65537", paths: pfPaths[:3], vals: []string{"x"}, rounds: 3, txnOps: 1, maxTxns: 2, depth: 11, c05: true, base: 65534},
			{name: "rounds-2^32-1..2^32+1", paths: pfPaths[:3], vals: []string{"x"}, rounds: 3, txnOps: 1, maxTxns: 2, depth: 11, c05: true, base: 1<<32 - 2},
			{name: "rounds-2^56-1..2^56+1", paths: pfPaths[:2], vals: []string{"x"}, rounds: 3, txnOps: 1, maxTxns: 2, depth: 11, c05: true, base: 1<<56 - 2},
		}
	}
	if rt.SubRun {
		// variant build with maxPruneNodes = 2 and BatchSize = 2: the prune's delete stream consists of many
		// small batches, so crash points BETWEEN node-delete batches exist (with 1000 there is one batch)
		runs = []roundCfg{
			{name: rt.VariantPrefix + "prefixfree-3rounds", paths: pfPaths[:3], vals: []string{"x"}, rounds: 3, txnOps: 2, maxTxns: 1, depth: 9, c05: true},
			{name: rt.VariantPrefix + "nested-2rounds", paths: nestedRound[:4], vals: []string{"x"}, rounds: 2, txnOps: 2, maxTxns: 2, depth: 8, c05: true},
			{name: rt.VariantPrefix + "sync-merge-2rounds", paths: pfPaths[:3], vals: []string{"x"}, rounds: 2, txnOps: 2, maxTxns: 1, depth: 8, c05: true, syncOps: true},
		}
		if tier == rt.Thorough {
			runs[0].paths, runs[0].maxTxns, runs[0].rounds, runs[0].depth = pfPaths[:4], 2, 4, 14
			runs[1].rounds, runs[1].depth = 3, 12
		}
	}
	for _, c := range runs {
		runRounds(rep, c, time.Now().Add(per), agg)
	}
	rep.RunVariant()
	rep.Set("prunes_executed", agg.prunes)
	rep.Set("prune_crash_points_explored", agg.pruneCrashPoints)
	rep.Set("rule", "BFS over the C04 round histories (three 1-op transactions per round make insert/delete/re-insert of identical content inside one round and across rounds part of the alphabet). At every save: no node recorded dead in any round r is reachable (independent walk over the decoded device content) from the root of any round >= r; then for EVERY prune version 1..R+1 PruneBelowVersion runs on a copy of the device: every root saved at a version >= v must read its full content, every removed key must have been recorded dead below v; for EVERY prefix of the prune's write stream the store is reopened, checked, the prune re-run and checked again")
	rep.Assumption("crash model: prefix of the unsynced write log, atomic batches")
	return rep.End()
}

// bigRounds: rounds that save thousands of nodes at once (a merged transaction of N inserts, a discarded one, a
// merged rewrite of some keys, then SaveChanges + RecordDeadNodes), three rounds; after every save every saved
// root must be complete on the store alone (reopened from its log) and every stored key the hash of its node.
func bigRounds(rep *rt.Report, tier rt.Tier) {
	sizes := []int{4001, 4002, 4003}
	if tier == rt.Thorough {
		sizes = []int{1023, 1024, 1025, 4001, 4002, 4003, 9001, 9002, 9003}
	}
	for _, n := range sizes {
		rep.Add("states", 1)
		func() {
			desc := fmt.Sprintf("[big-round] three rounds, the first saving %d new keys at once", n)
			fail := func(f string) {
				rep.Violate(desc+": "+f, map[string]any{"run": "big-round", "keys": n})
			}
			defer func() {
				if r := recover(); r != nil {
					fail(fmt.Sprintf("panic: %v", r))
				}
			}()
			dev := fmt.Sprintf("biground-%d", nextDev())
			pn, err := util.NewPNodeDB(dev, "")
			if err != nil {
				panic(err)
			}
			defer resetDev(dev)
			key := func(i int) string { return fmt.Sprintf("%08x", uint32(i)*2654435761) }
			type saved struct {
				ver   int64
				root  []byte
				model map[string]string
			}
			var all []saved
			model := map[string]string{}
			var prev []byte
			for round := int64(1); round <= 3; round++ {
				B := blockTrie(pn, round, prev)
				txn := func(apply func(t *util.MerklePatriciaTrie, m map[string]string), merge bool) {
					T := util.NewMerklePatriciaTrie(util.NewLevelNodeDB(util.NewMemoryNodeDB(), B.GetNodeDB(), false), B.GetVersion(), B.GetRoot(), statecache.NewEmpty())
					m := copyMap(model)
					apply(T, m)
					if merge {
						if err := B.MergeMPTChanges(T); err != nil {
							panic(err)
						}
						model = m
					}
				}
				switch round {
				case 1:
					txn(func(t *util.MerklePatriciaTrie, m map[string]string) {
						for i := 0; i < n; i++ {
							_, _ = t.Insert(util.Path(key(i)), val("v"+key(i)))
							m[key(i)] = "v" + key(i)
						}
					}, true)
				case 2:
					txn(func(t *util.MerklePatriciaTrie, m map[string]string) {
						for i := 0; i < 50; i++ {
							_, _ = t.Insert(util.Path(key(n+i)), val("discarded"))
						}
					}, false)
					txn(func(t *util.MerklePatriciaTrie, m map[string]string) {
						for i := 0; i < n; i += 3 {
							_, _ = t.Insert(util.Path(key(i)), val("w"+key(i)))
							m[key(i)] = "w" + key(i)
						}
					}, true)
				default:
					txn(func(t *util.MerklePatriciaTrie, m map[string]string) {
						for i := 1; i < n; i += 7 {
							_, _ = t.Delete(util.Path(key(i)))
							delete(m, key(i))
						}
					}, true)
				}
				dels := B.GetDeletes()
				if err := B.SaveChanges(context.Background(), pn, false); err != nil {
					fail(fmt.Sprintf("round %d: SaveChanges: %v", round, err))
					return
				}
				if err := pn.RecordDeadNodes(dels, round); err != nil {
					fail(fmt.Sprintf("round %d: RecordDeadNodes: %v", round, err))
					return
				}
				prev = B.GetRoot()
				all = append(all, saved{round, prev, copyMap(model)})
				rep.Add("transitions", 1)
				rep.Add("traces_validated_against_impl", 1)
				rep.Add("evaluations", 1)
				pn2, p2 := openLog(grocksdb.GetDevice(dev).Snapshot())
				for _, s := range all {
					t := util.NewMerklePatriciaTrie(pn2, util.Sequence(s.ver), s.root, statecache.NewEmpty())
					if missing, err := t.HasMissingNodes(context.Background()); err != nil || missing {
						resetDev(p2)
						fail(fmt.Sprintf("after the save of round %d, the store reopened: the root of round %d has missing nodes (%v, %v)", round, s.ver, missing, err))
						return
					}
					got := 0
					bad := ""
					_ = t.Iterate(context.Background(), func(ctx context.Context, path util.Path, key util.Key, node util.Node) error {
						if vn, ok := node.(*util.ValueNode); ok {
							got++
							if want, ok := s.model[string(path)]; !ok || want != string(vn.GetValueBytes()) {
								bad = fmt.Sprintf("path %s holds %q, model %q", path, vn.GetValueBytes(), want)
							}
						}
						return nil
					}, util.NodeTypeValueNode)
					if bad != "" || got != len(s.model) {
						resetDev(p2)
						fail(fmt.Sprintf("after the save of round %d, the store reopened: round %d reads %d values (model %d) %s", round, s.ver, got, len(s.model), bad))
						return
					}
				}
				f := storedKeysHashed(pn2)
				resetDev(p2)
				if f != "" {
					fail(f)
					return
				}
			}
		}()
	}
}

// cancelledSaves (auxiliary, NOT exhaustive: SaveChanges hands the write to a goroutine of its own and waits in a
// select, neither of which the explorers control): a save called with a context that is already done may report
// the context's error - or success, and then the state must be on the target store. Repeated on many small tries
// and fresh targets in parallel; counts how often each answer was seen.
func cancelledSaves(rep *rt.Report, tier rt.Tier) {
	per := 4000
	if tier == rt.Thorough {
		per = 40000
	}
	var okAnswers, errAnswers int64
	var mu sync.Mutex
	fail := ""
	var wg sync.WaitGroup
	for w := 0; w < rt.Workers(); w++ {
		wg.Add(1)
		go func(w int) {
			defer wg.Done()
			base := util.NewMemoryNodeDB()
			t := util.NewMerklePatriciaTrie(util.NewLevelNodeDB(util.NewMemoryNodeDB(), base, false), 1, nil, statecache.NewEmpty())
			for i, p := range []string{"0a1b", "0a1c", "0b22", "1c00"} {
				if _, err := t.Insert(util.Path(p), val(fmt.Sprintf("v%d.%d", w, i))); err != nil {
					panic(err)
				}
			}
			ctx, cancel := context.WithCancel(context.Background())
			cancel()
			for i := 0; i < per; i++ {
				target := util.NewMemoryNodeDB()
				err := t.SaveChanges(ctx, target, false)
				if err != nil {
					atomic.AddInt64(&errAnswers, 1)
					continue
				}
				atomic.AddInt64(&okAnswers, 1)
				t2 := util.NewMerklePatriciaTrie(target, 1, t.GetRoot(), statecache.NewEmpty())
				if has, err := t2.HasMissingNodes(context.Background()); err != nil || has {
					mu.Lock()
					if fail == "" {
						fail = fmt.Sprintf("SaveChanges called with a context that was already cancelled returned nil (attempt %d of worker %d), but the target store does not hold the trie's state: missing nodes %v, %v (%d nodes in the target)", i, w, has, err, target.Size(context.Background()))
					}
					mu.Unlock()
					return
				}
			}
		}(w)
	}
	wg.Wait()
	// a save that takes long and then FAILS still reports its failure (a store that stalls before it rejects the
	// batch); the durations are wall-clock, the answer is not: an error must come back however long it took
	slow := []time.Duration{1500 * time.Millisecond}
	if tier == rt.Thorough {
		slow = []time.Duration{1500 * time.Millisecond, 3 * time.Second, 6 * time.Second}
	}
	var swg sync.WaitGroup
	for _, d := range slow {
		swg.Add(1)
		go func(d time.Duration) {
			defer swg.Done()
			t := util.NewMerklePatriciaTrie(util.NewLevelNodeDB(util.NewMemoryNodeDB(), util.NewMemoryNodeDB(), false), 1, nil, statecache.NewEmpty())
			for i, p := range []string{"0a1b", "0a1c", "0b22"} {
				if _, err := t.Insert(util.Path(p), val(fmt.Sprintf("s%d", i))); err != nil {
					panic(err)
				}
			}
			if err := t.SaveChanges(context.Background(), stallingDB{util.NewMemoryNodeDB(), d}, false); err == nil {
				mu.Lock()
				if fail == "" {
					fail = fmt.Sprintf("SaveChanges into a store that stalls for %v and then rejects the batch returned nil", d)
				}
				mu.Unlock()
			}
		}(d)
	}
	swg.Wait()
	rep.Set("aux_cancelled_saves", fmt.Sprintf("auxiliary free-running loop (not exhaustive): %d saves with an already cancelled context; %d reported the context error, %d reported success and were found complete on the target", okAnswers+errAnswers, errAnswers, okAnswers))
	if fail != "" {
		rep.Violate("[cancelled-saves] "+fail, map[string]any{"run": "cancelled-saves"})
	}
}

// stallingDB is a save target that takes its time and then rejects the batch.
type stallingDB struct {
	*util.MemoryNodeDB
	d time.Duration
}

var errStalled = fmt.Errorf("store rejects the batch after stalling")

func (s stallingDB) MultiPutNode(keys []util.Key, nodes []util.Node) error {
	time.Sleep(s.d)
	return errStalled
}
func (s stallingDB) PutNode(key util.Key, node util.Node) error { time.Sleep(s.d); return errStalled }
