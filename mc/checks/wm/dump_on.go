//go:build !nodump

package wm

import "github.com/0chain/common/core/util/wmpt"

const haveDump = true

func dumpTrie(t *wmpt.WeightedMerkleTrie) string    { return wmpt.VerifDump(t) }
func createdOf(t *wmpt.WeightedMerkleTrie) [][]byte { return wmpt.VerifCreated(t) }
