#!/bin/bash
# Offline setup: pre-build every harness binary (warms the Go build cache).
set -u
here="$(cd "$(dirname "$0")" && pwd)"
. "$here/env.sh"
for b in mccheck mcsched mcrace; do "$here/build.sh" $b || exit 1; done
for b in mccheck.prune2 mcsched.buf4; do "$here/build.sh" $b || echo "note: variant $b not built"; done
echo setup ok
