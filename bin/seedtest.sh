#!/bin/bash
# bin/seedtest.sh <seed-dir> <check-id>... : apply a seeded change to /repo, run baseline + checks, undo.
# Prints one line per check: DETECTED / MISSED.
set -u
here="$(cd "$(dirname "$0")" && pwd)"
seed="$1"; shift
# development only: SEED_REPO=<scratch worktree of /repo> tries the change there (while /repo is in use by a long run)
R="${SEED_REPO:-/repo}"
[ "$R" != /repo ] && export VERIF_ALT_REPO="$R"
cd "$R" || exit 2
if [ -n "$(git status --porcelain)" ]; then echo "repo not clean"; exit 2; fi
git apply --check "$seed/patch.diff" || { echo "patch does not apply"; exit 2; }
git apply "$seed/patch.diff"
trap 'git -C "$R" checkout -- . ; git -C "$R" clean -fdq' EXIT
[ -n "${SEEDTEST_NO_BASELINE:-}" ] || "$here/baseline.sh" | tail -1
for id in "$@"; do
  out=$(VERIF_EVIDENCE_DIR=/tmp/seed-evidence${SEED_BIN_SUFFIX:-} VERIF_BIN_SUFFIX=${SEED_BIN_SUFFIX:-.seed} "$here/check" "$id" quick 2>&1); rc=$?
  if [ $rc -eq 1 ] && echo "$out" | grep -q "^VIOLATION property=$id"; then echo "$id DETECTED (exit 1): $(echo "$out" | grep -A1 '^VIOLATION' | sed -n 2p | cut -c1-260)"
  elif [ $rc -eq 0 ]; then echo "$id MISSED (exit 0)"
  else echo "$id exit=$rc: $(echo "$out" | tail -2 | cut -c1-300)"; fi
done
