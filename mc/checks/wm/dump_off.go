//go:build nodump

package wm

import "github.com/0chain/common/core/util/wmpt"

const haveDump = false

func dumpTrie(t *wmpt.WeightedMerkleTrie) string    { return "" }
func createdOf(t *wmpt.WeightedMerkleTrie) [][]byte { return nil }
