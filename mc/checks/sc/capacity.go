package sc

import (
	"fmt"

	"github.com/0chain/common/core/statecache"

	"verifmc/rt"
)

// capacityScenarios: macro-event universes around the per-key capacity (200 block entries per key)
// and the ancestor-link capacity (2000). A hit must still be right when an intermediate entry has
// been evicted while an older ancestor's entry survives (LRU order is by use, so a re-read ancestor
// outlives a newer descendant entry).
func capacityScenarios(rep *rt.Report) {
	commit := func(sc *statecache.StateCache, hash, prev string, kv map[string]string) {
		bc := statecache.NewBlockCache(sc, statecache.Block{Hash: hash, PrevHash: prev})
		tc := statecache.NewTransactionCache(bc)
		for k, v := range kv {
			tc.Set(k, statecache.String(v))
		}
		tc.Commit()
		bc.Commit()
	}
	for _, siblings := range []int{150, 197, 198, 199, 200, 260} {
		for _, reread := range []bool{false, true} {
			sc := statecache.NewStateCache()
			commit(sc, "b1", "b0", map[string]string{"k": "1"})
			commit(sc, "b2", "b1", map[string]string{"j": "x"})
			commit(sc, "b3", "b2", map[string]string{"k": "3"})
			commit(sc, "b4", "b3", map[string]string{"j": "y"})
			if reread {
				sc.Get("k", "b1")
			}
			for i := 0; i < siblings; i++ {
				commit(sc, fmt.Sprintf("s%d", i), "b1", map[string]string{"k": fmt.Sprintf("s%d", i)})
			}
			_, maxPerKey, _ := dumpSC(sc)
			v, ok := sc.Get("k", "b4")
			rep.Add("capacity_scenarios", 1)
			name := fmt.Sprintf("chain b1:k=1 <- b2 <- b3:k=3 <- b4; reread(k,b1)=%v; %d sibling blocks of b2 writing k; Get(k,b4)", reread, siblings)
			if ok && render(v) != "3" {
				msg := fmt.Sprintf("%s returned %s; the value on b4's chain is 3", name, render(v))
				// discriminator: attributed to the capacity finding only if the entries this history legitimately
				// creates for k (b1, b3 and one per sibling) exceed the capacity, i.e. something had to be evicted,
				// and the dumped per-key map is indeed at its capacity
				if siblings+2 > 200 && (!haveDump || maxPerKey >= 200) && rt.OpenFinding("C06-capacity-eviction") {
					rep.KnownHit("C06-capacity-eviction", name, msg)
					continue
				}
				rep.Violate(msg, map[string]any{"scenario": name})
			}
		}
	}
	// EVERY number of blocks holding the key below the capacity (2..198 entries): b1:k=1 <- b2:k=2, the rest are
	// siblings of b2 writing k; the oldest writer is re-read, k is looked up at a block hanging off a sibling (one
	// memoised entry more), then at a fresh child of b2 - where the value of b2 must be found. The history creates
	// at most 200 entries for k: nothing may be evicted at any size, also not at a size where a container grows.
	for n := 2; n <= 198; n++ {
		sc := statecache.NewStateCache()
		commit(sc, "b1", "b0", map[string]string{"k": "1"})
		commit(sc, "b2", "b1", map[string]string{"k": "2"})
		for i := 0; i < n-2; i++ {
			commit(sc, fmt.Sprintf("s%d", i), "b1", map[string]string{"k": fmt.Sprintf("s%d", i)})
		}
		forkParent, forkWant := "b1", "1"
		if n > 2 {
			forkParent, forkWant = "s0", "s0"
		}
		commit(sc, "t", forkParent, map[string]string{"j": "x"})
		commit(sc, "c", "b2", map[string]string{"j": "y"})
		rep.Add("capacity_scenarios", 1)
		name := fmt.Sprintf("b1:k=1 <- b2:k=2, %d sibling blocks of b2 writing k (%d entries for k, capacity 200), t on %s and c on b2 not touching k; Get(k,b1), Get(k,t), Get(k,c)", n-2, n, forkParent)
		for _, q := range [][2]string{{"b1", "1"}, {"t", forkWant}, {"c", "2"}, {"b2", "2"}, {"c", "2"}} {
			if v, ok := sc.Get("k", q[0]); ok && render(v) != q[1] {
				rep.Violate(fmt.Sprintf("%s: Get(k,%s) returned %s; the value on that block's chain is %s", name, q[0], render(v), q[1]), map[string]any{"scenario": name})
				n = 1 << 20
				break
			}
		}
	}
	// deep walks below the capacity: W consecutive blocks rewrite k, H more blocks do not touch it; an old
	// writer X is re-read (its entry becomes the most recently used), then k is looked up at the tip (a walk
	// over H blocks). The history creates W entries for k plus one memoised entry per lookup at a non-writer,
	// always fewer than the capacity here: nothing may be evicted, every later hit must be exact.
	for _, p := range [][3]int{{60, 175, 5}, {150, 100, 0}, {20, 400, 5}, {190, 30, 100}, {198, 60, 3}, {100, 250, 50}} {
		W, H, X := p[0], p[1], p[2]
		sc := statecache.NewStateCache()
		name := func(i int) string { return fmt.Sprintf("c%d", i) }
		for i := 0; i < W+H; i++ {
			prev := "c-root"
			if i > 0 {
				prev = name(i - 1)
			}
			if i < W {
				commit(sc, name(i), prev, map[string]string{"k": fmt.Sprintf("w%d", i)})
			} else {
				commit(sc, name(i), prev, map[string]string{"j": "x"})
			}
		}
		desc := fmt.Sprintf("chain of %d blocks rewriting k (w0..w%d) followed by %d blocks not touching it; Get(k,c%d); Get(k,tip)", W, W-1, H, X)
		rep.Add("capacity_scenarios", 1)
		bad := func(what, got, want string) {
			rep.Violate(fmt.Sprintf("%s; then %s returned %s; the value on that block's chain is %s and this history creates only %d entries for k (capacity 200)", desc, what, got, want, W+1), map[string]any{"scenario": desc})
		}
		if v, ok := sc.Get("k", name(X)); ok && render(v) != fmt.Sprintf("w%d", X) {
			bad(fmt.Sprintf("Get(k,c%d)", X), render(v), fmt.Sprintf("w%d", X))
			continue
		}
		tip := name(W + H - 1)
		if v, ok := sc.Get("k", tip); ok && render(v) != fmt.Sprintf("w%d", W-1) {
			bad("Get(k,tip)", render(v), fmt.Sprintf("w%d", W-1))
			continue
		}
		failed := false
		// the writers (their own entries: no new entry is created by these lookups), nearest to X first
		for d := 1; d < W && !failed; d++ {
			for _, i := range []int{X + d, X - d} {
				if i < 0 || i >= W {
					continue
				}
				if v, ok := sc.Get("k", name(i)); ok && render(v) != fmt.Sprintf("w%d", i) {
					bad(fmt.Sprintf("Get(k,c%d)", i), render(v), fmt.Sprintf("w%d", i))
					failed = true
					break
				}
			}
		}
		if failed {
			continue
		}
		if v, ok := sc.Get("k", tip); ok && render(v) != fmt.Sprintf("w%d", W-1) {
			bad("a second Get(k,tip)", render(v), fmt.Sprintf("w%d", W-1))
		}
	}
}

// depthScenarios: a key written once at the bottom of a chain of N committed blocks (N swept over every
// value 1..70, well below the ancestor-link capacity), read at the tip, at every intermediate block and
// through a child block / transaction / query cache, twice each; with mutable values the harness mutates
// every object it is handed. A lookup that walks 20 or 40 blocks must answer like one that walks 2.
// kind selects the value type (0 immutable string, 1.. mutable kinds of C07).
func depthScenarios(rep *rt.Report, kinds []int, removal bool) {
	commitV := func(sc *statecache.StateCache, hash, prev, key string, v statecache.Value, remove bool) {
		bc := statecache.NewBlockCache(sc, statecache.Block{Hash: hash, PrevHash: prev})
		tc := statecache.NewTransactionCache(bc)
		if remove {
			tc.Remove(key)
		} else if v != nil {
			tc.Set(key, v)
		}
		tc.Commit()
		bc.Commit()
	}
	for _, kind := range kinds {
		for n := 1; n <= 70; n++ {
			sc := statecache.NewStateCache()
			name := func(i int) string { return fmt.Sprintf("d%d", i) }
			v0 := mkVal(kind, "bottom")
			want := render(v0)
			commitV(sc, name(0), "d-root", "k", v0, false)
			mutate(v0)
			wantAt := func(i int) string { return want }
			if removal && n >= 3 {
				// the key is rewritten at block 1 and removed at block 2: everything above must miss
				v1 := mkVal(kind, "second")
				commitV(sc, name(1), name(0), "k", v1, false)
				mutate(v1)
				commitV(sc, name(2), name(1), "k", nil, true)
				w1 := render(mkVal(kind, "second"))
				wantAt = func(i int) string {
					switch {
					case i == 0:
						return want
					case i == 1:
						return w1
					default:
						return mustMiss
					}
				}
				for i := 3; i < n; i++ {
					commitV(sc, name(i), name(i-1), "j", statecache.String("x"), false)
				}
			} else {
				for i := 1; i < n; i++ {
					commitV(sc, name(i), name(i-1), "j", statecache.String("x"), false)
				}
			}
			rep.Add("capacity_scenarios", 1)
			desc := fmt.Sprintf("chain of %d committed blocks, k written at the bottom (value kind %d, removal variant %v)", n, kind, removal)
			bad := ""
			judge := func(what string, v statecache.Value, ok bool, i int) bool {
				w := wantAt(i)
				if !ok {
					if w != mustMiss {
						bad = fmt.Sprintf("%s: %s missed; block d%d's chain holds %s and nothing can have been evicted", desc, what, i, w)
					}
					return bad == ""
				}
				got := render(v)
				if w == mustMiss || got != w {
					bad = fmt.Sprintf("%s: %s returned %s; the chain of d%d determines %s", desc, what, got, i, showTruth(w))
					return false
				}
				mutate(v) // the caller owns what it was handed
				return true
			}
			tip := n - 1
			order := []int{tip, tip, tip / 2, 0, tip}
			for i := 0; i < n; i++ {
				order = append(order, i)
			}
			order = append(order, tip)
			okAll := true
			for _, i := range order {
				v, ok := sc.Get("k", name(i))
				if !judge(fmt.Sprintf("StateCache.Get(k,d%d)", i), v, ok, i) {
					okAll = false
					break
				}
			}
			if okAll {
				child := statecache.NewBlockCache(sc, statecache.Block{Hash: "child", PrevHash: name(tip)})
				for pass := 0; pass < 2 && okAll; pass++ {
					v, ok := child.Get("k")
					okAll = judge("a child block's BlockCache.Get(k)", v, ok, tip)
					if okAll {
						v, ok = statecache.NewTransactionCache(child).Get("k")
						okAll = judge("a child block's TransactionCache.Get(k)", v, ok, tip)
					}
					if okAll {
						v, ok = statecache.NewQueryBlockCache(sc, name(tip)).Get("k")
						okAll = judge("QueryBlockCache(tip).Get(k)", v, ok, tip)
					}
				}
			}
			if bad != "" {
				rep.Violate(bad, map[string]any{"scenario": desc})
				break // deeper chains fail alike
			}
		}
	}
}

// manyKeysScenario: ONE block that writes / removes a large number of distinct keys (70000, far above any
// small bound inside the block cache) over a parent that holds an older value for every one of them; every
// key is looked up through the open block, after the block's commit, and from a child block.
// txnSize is the number of writes per transaction (0: all of them in ONE transaction).
func manyKeysScenario(rep *rt.Report, nKeys, txnSize int) {
	sc := statecache.NewStateCache()
	parent := statecache.NewBlockCache(sc, statecache.Block{Hash: "p", PrevHash: "p-root"})
	ptc := statecache.NewTransactionCache(parent)
	key := func(i int) string { return fmt.Sprintf("key-%d", i) }
	for i := 0; i < nKeys; i++ {
		ptc.Set(key(i), statecache.String("old"))
	}
	ptc.Commit()
	parent.Commit()
	bc := statecache.NewBlockCache(sc, statecache.Block{Hash: "b", PrevHash: "p"})
	tc := statecache.NewTransactionCache(bc)
	wantOf := func(i int) string {
		if i%3 == 2 {
			return mustMiss // removed by the block
		}
		return fmt.Sprintf("new-%d", i)
	}
	for i := 0; i < nKeys; i++ {
		if i%3 == 2 {
			tc.Remove(key(i))
		} else {
			tc.Set(key(i), statecache.String(fmt.Sprintf("new-%d", i)))
		}
		if txnSize > 0 && i%txnSize == txnSize-1 {
			tc.Commit() // transactions of txnSize writes each
			tc = statecache.NewTransactionCache(bc)
		}
		if txnSize == 0 && (i == nKeys/2 || i == nKeys-1) {
			// the one big transaction reads its own pending writes while it grows
			for _, j := range []int{0, 1, i / 2, i - 1, i} {
				v, ok := tc.Get(key(j))
				w := wantOf(j)
				if (!ok && w != mustMiss) || (ok && (w == mustMiss || render(v) != w)) {
					got := "a miss"
					if ok {
						got = render(v)
					}
					rep.Violate(fmt.Sprintf("one transaction with %d pending writes over a parent holding an older value for each: its own lookup of key %d returned %s; its own write is %s", i+1, j, got, showTruth(w)), map[string]any{"scenario": "many-keys-one-txn", "keys": nKeys})
					return
				}
			}
		}
	}
	tc.Commit()
	rep.Add("capacity_scenarios", 1)
	desc := fmt.Sprintf("one block writing/removing %d distinct keys (transactions of %d writes, 0 = one transaction) over a parent holding an older value for each", nKeys, txnSize)
	check := func(stage string, get func(k string) (statecache.Value, bool), mustHit bool) bool {
		for i := 0; i < nKeys; i++ {
			v, ok := get(key(i))
			w := wantOf(i)
			switch {
			case !ok && w != mustMiss && mustHit:
				rep.Violate(fmt.Sprintf("%s: %s: lookup of key %d missed; the block wrote %s itself", desc, stage, i, w), map[string]any{"scenario": desc})
				return false
			case ok && (w == mustMiss || render(v) != w):
				rep.Violate(fmt.Sprintf("%s: %s: lookup of key %d returned %s; the block's own write is %s", desc, stage, i, render(v), showTruth(w)), map[string]any{"scenario": desc})
				return false
			}
		}
		return true
	}
	if !check("through the open block", bc.Get, true) {
		return
	}
	bc.Commit()
	// the state cache holds 100*1024 keys at most: with nKeys below that nothing is evicted
	if !check("after the block's commit, StateCache.Get at the block", func(k string) (statecache.Value, bool) { return sc.Get(k, "b") }, nKeys <= 90000) {
		return
	}
	child := statecache.NewBlockCache(sc, statecache.Block{Hash: "c", PrevHash: "b"})
	check("from a child block", child.Get, nKeys <= 90000)
}
