package statecache

// Added to the package at build time through `go build -overlay` by the /verif
// harness (never part of /repo). Read-only rendering of private cache state, used
// as the implementation fingerprint when merging explored states.

import (
	"fmt"
	"sort"
	"strings"

)

// verifLRU is what the dump needs of a per-key container (the LRU itself, or a wrapper that embeds it): a
// change of the container's type must not crash the dump - what it cannot read it renders as "?<type>".
type verifLRU interface {
	Len() int
	Keys() []interface{}
	Peek(key interface{}) (interface{}, bool)
}

func verifEntry(v interface{}) string {
	if vn, ok := v.(valueNode); ok {
		return verifVN(vn)
	}
	return fmt.Sprintf("?%T", v)
}

func verifVN(v valueNode) string {
	if v.deleted {
		return "DEL"
	}
	if e, ok := v.data.(interface{ Encode() []byte }); ok {
		return fmt.Sprintf("%x", e.Encode())
	}
	return fmt.Sprint(v.data)
}

// VerifDump renders the committed per-key maps and the ancestor links; Peek/Keys do
// not touch LRU recency. It also returns the largest per-key map size and the number
// of links so that a harness can assert that it stayed below every capacity.
func VerifDump(sc *StateCache) (dump string, maxPerKey, links int) {
	var out []string
	for _, k := range sc.cache.Keys() {
		bvsi, ok := sc.cache.Peek(k)
		if !ok {
			continue
		}
		bvs, isLRU := bvsi.(verifLRU)
		if !isLRU {
			out = append(out, fmt.Sprintf("%v{?%T}", k, bvsi))
			continue
		}
		if bvs.Len() > maxPerKey {
			maxPerKey = bvs.Len()
		}
		var es []string
		for _, b := range bvs.Keys() {
			v, _ := bvs.Peek(b)
			es = append(es, fmt.Sprintf("%v:%s", b, verifEntry(v)))
		}
		sort.Strings(es)
		out = append(out, fmt.Sprintf("%v{%s}", k, strings.Join(es, ",")))
	}
	sort.Strings(out)
	var hs []string
	for _, b := range sc.hashCache.Keys() {
		p, _ := sc.hashCache.Peek(b)
		hs = append(hs, fmt.Sprintf("%v<-%v", p, b))
	}
	sort.Strings(hs)
	return strings.Join(out, ";") + "|" + strings.Join(hs, ","), maxPerKey, len(hs)
}

func verifMap(m map[string]valueNode) string {
	var es []string
	for k, v := range m {
		es = append(es, k+":"+verifVN(v))
	}
	sort.Strings(es)
	return strings.Join(es, ",")
}

// VerifDumpBC renders a block cache's uncommitted entries.
func VerifDumpBC(bc *BlockCache) string { return verifMap(bc.cache) }

// VerifDumpTC renders a transaction cache's uncommitted entries.
func VerifDumpTC(tc *TransactionCache) string { return verifMap(tc.cache) }

// VerifView is the abstract state of one key for model conformance: whether the key has a per-block
// map, the entries of that map and all ancestor links.
func VerifView(sc *StateCache, key string) (known bool, entries map[string]string, links map[string]string) {
	entries, links = map[string]string{}, map[string]string{}
	if bvsi, ok := sc.cache.Peek(key); ok {
		known = true
		if bvs, isLRU := bvsi.(verifLRU); isLRU {
			for _, b := range bvs.Keys() {
				v, _ := bvs.Peek(b)
				entries[fmt.Sprint(b)] = verifEntry(v)
			}
		}
	}
	for _, b := range sc.hashCache.Keys() {
		p, _ := sc.hashCache.Peek(b)
		links[fmt.Sprint(b)] = fmt.Sprint(p)
	}
	return
}
